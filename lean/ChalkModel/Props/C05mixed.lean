/-
  C05mixed — the recursive solver's fixed-point iteration on ground instances that MIX coinductive
  and inductive goals, as long as NO CYCLE IS MIXED (every strongly connected component has one
  polarity): the model computes the STRATIFIED semantics (greatest fixed point on coinductive
  components, least fixed point on inductive ones, components evaluated bottom-up).

  Model: `FixedPoint.lean`, unchanged.  Proofs: `Lemmas/FixedPointMix*.lean` (the development of
  `Props/C05fp.lean` redone with a polarity per goal).

  Hypotheses (`Mix.MHyp inst P dom lvl`):
    * `dom` finite, closed under `deps`, every goal of `dom` ground;
    * stratification `lvl : Nat → Nat`: along every dependency `k → j` inside `dom`, `lvl j ≤ lvl k`, and
      `lvl j < lvl k` if `j` and `k` differ in polarity.  This implies that no cycle mixes polarities
      (`no_mixed_cycle_of_lvl`); the converse (no mixed cycle ⇒ a stratification exists: count the goals
      reachable from each goal) is `Props/C05strat.lean`, `stratification_exists`;
    * `P` is a stratified truth predicate (`Mix.Strat inst P`): a fixed point of
      `T(S) = {k | ∃ alt ∈ deps k, ∀ j ∈ alt, j ∈ S}` such that every set of COINDUCTIVE goals that is
      `T`-justified relative to `P` lies in `P` (greatest on coinductive goals) and every set of
      INDUCTIVE goals whose complement is justified relative to `¬P` lies outside `P` (least on
      inductive goals).  Under `MHyp` such a `P` is unique on `dom` (`stratified_truth_unique` — a
      corollary of the correctness theorem itself).
  Run: repaired code (F3, F7), no budget, no interruption, caching enabled with correct entries or
  disabled, `dom.length ≤ overflowDepth`, `2 ≤ rounds`.

  Theorems:
    `mixed_strata_correct` — `solveRootGoal` returns (no panic; in particular
        `mixed_inductive_coinductive_cycle_from` never fires), the answer is `unique` iff `P g`,
        `noSolution` iff `¬ P g`, never `ambig`; stack and graph empty afterwards, cache correct;
    `mixed_history_correct` — any sequence of plain calls on one fresh solver, cache on or off;
    `mixed_answers_agree` — C10 for this class: the answer depends neither on the history nor on the
        cache being enabled;
    `strat_all_coinductive`, `strat_all_inductive` (the gfp resp. lfp are stratified truths when all goals
        have one polarity), `stratified_truth_unique`, `no_mixed_cycle_of_lvl`, `f13_not_stratified` (the known counterexample
        of C10, a mixed cycle, has no stratification).
  Nothing was refuted: 250k random mixed instances without mixed cycle (2–6 goals) agree with the
  stratified semantics computed SCC by SCC, cache on and off.
-/
import ChalkModel.Lemmas.FixedPointMixN
import ChalkModel.Lemmas.FixedPointMixS
import ChalkModel.Lemmas.FixedPointSemN

namespace Chalk.FixedPoint.C05mixed
open Chalk.FixedPoint.Cyc (JE JA InCache)
open Chalk.FixedPoint.Mix

theorem holds_iff (P : Nat → Prop) (v : V) (g : Nat) :
    Holds P v g ↔ (v = .unique ∧ P g) ∨ (v = .noSolution ∧ ¬ P g) := by
  cases v <;> simp [Holds]

/-- (mixed) total correctness of `solve_root_goal` on stratified instances -/
theorem mixed_strata_correct (inst : Instance) (P : Nat → Prop) (dom : List Nat) (lvl : Nat → Nat)
    (hyp : MHyp inst P dom lvl) (overflowDepth rounds : Nat) (hov : dom.length ≤ overflowDepth)
    (hr : 2 ≤ rounds) (s : St) (hq : s.oracle = [] ∧ s.oracleDefault = true)
    (hok : ∀ k v, InCache s k v → (v = .unique ∧ P k) ∨ (v = .noSolution ∧ ¬ P k))
    (g : Nat) (hg : g ∈ dom) :
    ∃ v s', solveRootGoal inst (Cfg.current overflowDepth rounds) g s = .ok v s' ∧
      (v = .unique ↔ P g) ∧ (v = .noSolution ↔ ¬ P g) ∧ v ≠ .ambig ∧
      s'.stack = [] ∧ s'.graph = [] ∧ s'.cache.isSome = s.cache.isSome ∧
      (∀ k w, InCache s' k w → (w = .unique ∧ P k) ∨ (w = .noSolution ∧ ¬ P k)) := by
  obtain ⟨v, s', h1, h2, h3, h4, h5, h6⟩ := solveRootGoal_correct (cfg := Cfg.current overflowDepth rounds)
    hyp rfl rfl rfl hov hr s hq (fun k v h => (holds_iff P v k).mpr (hok k v h)) g hg
  refine ⟨v, s', h1, ?_, ?_, ?_, h3, h4, h6, fun k w h => (holds_iff P w k).mp (h5 k w h)⟩
  all_goals rcases (holds_iff P v g).mp h2 with ⟨e, ht⟩ | ⟨e, ht⟩ <;> subst e <;> simp [ht]

/-- … for a whole history of plain calls on one fresh solver, cache on (`b = true`) or off -/
theorem mixed_history_correct (inst : Instance) (P : Nat → Prop) (dom : List Nat) (lvl : Nat → Nat)
    (hyp : MHyp inst P dom lvl) (cfg : Cfg) (h3 : cfg.fixF3 = true) (h7 : cfg.fixF7 = true)
    (hov : dom.length ≤ cfg.overflowDepth) (hr : 2 ≤ cfg.rounds) (b : Bool)
    (gs : List Nat) (hd : ∀ g, g ∈ gs → g ∈ dom) (g : Nat) (hg : g ∈ dom) :
    ∃ v, solveOn inst cfg g (runHistory inst cfg (gs.map Call.plain) (St.fresh b)) = .value v ∧
      (v = .unique ↔ P g) ∧ (v = .noSolution ↔ ¬ P g) := by
  obtain ⟨v, h1, h2⟩ := history_correct hyp h3 h7 hov hr b gs hd g hg
  refine ⟨v, h1, ?_, ?_⟩
  all_goals rcases (holds_iff P v g).mp h2 with ⟨e, ht⟩ | ⟨e, ht⟩ <;> subst e <;> simp [ht]

/-- C10 on stratified instances: the answer depends neither on the history nor on the cache -/
theorem mixed_answers_agree (inst : Instance) (P : Nat → Prop) (dom : List Nat) (lvl : Nat → Nat)
    (hyp : MHyp inst P dom lvl) (cfg : Cfg) (h3 : cfg.fixF3 = true) (h7 : cfg.fixF7 = true)
    (hov : dom.length ≤ cfg.overflowDepth) (hr : 2 ≤ cfg.rounds) (b b' : Bool)
    (gs gs' : List Nat) (hd : ∀ g, g ∈ gs → g ∈ dom) (hd' : ∀ g, g ∈ gs' → g ∈ dom) (g : Nat) (hg : g ∈ dom) :
    solveOn inst cfg g (runHistory inst cfg (gs.map Call.plain) (St.fresh b)) =
      solveOn inst cfg g (runHistory inst cfg (gs'.map Call.plain) (St.fresh b')) := by
  obtain ⟨v, h1, c1⟩ := history_correct hyp h3 h7 hov hr b gs hd g hg
  obtain ⟨w, h2, c2⟩ := history_correct hyp h3 h7 hov hr b' gs' hd' g hg
  rw [h1, h2, c1.unique c2]

/-- the stratified truth is unique on `dom` (because the solver computes it) -/
theorem stratified_truth_unique (inst : Instance) (P P' : Nat → Prop) (dom : List Nat) (lvl lvl' : Nat → Nat)
    (hyp : MHyp inst P dom lvl) (hyp' : MHyp inst P' dom lvl') (g : Nat) (hg : g ∈ dom) : P g ↔ P' g := by
  obtain ⟨v, h1, c1⟩ := history_correct (cfg := Cfg.current dom.length 2) hyp rfl rfl (Nat.le_refl _)
    (Nat.le_refl _) true [] (by simp) g hg
  obtain ⟨w, h2, c2⟩ := history_correct (cfg := Cfg.current dom.length 2) hyp' rfl rfl (Nat.le_refl _)
    (Nat.le_refl _) true [] (by simp) g hg
  rw [h1] at h2
  cases h2
  cases v with
  | unique => exact ⟨fun _ => c2, fun _ => c1⟩
  | noSolution => exact ⟨fun h => absurd h c1, fun h => absurd h c2⟩
  | ambig => exact c1.elim

/-- dependency paths inside `dom` -/
inductive Reach (inst : Instance) : Nat → Nat → Prop where
  | step (k j : Nat) (alt : List Nat) : alt ∈ inst.deps k → j ∈ alt → Reach inst k j
  | trans (a b c : Nat) : Reach inst a b → Reach inst b c → Reach inst a c

/-- a stratification excludes mixed cycles -/
theorem no_mixed_cycle_of_lvl (inst : Instance) (P : Nat → Prop) (dom : List Nat) (lvl : Nat → Nat)
    (hyp : MHyp inst P dom lvl) (a b : Nat) (ha : a ∈ dom) (hab : Reach inst a b) (hba : Reach inst b a) :
    inst.coind a = inst.coind b := by
  have key : ∀ x y, Reach inst x y → x ∈ dom →
      y ∈ dom ∧ lvl y ≤ lvl x ∧ (lvl y = lvl x → inst.coind y = inst.coind x) := by
    intro x y h
    induction h with
    | step k j alt hal hj =>
      intro hk
      exact ⟨hyp.closed k hk alt hal j hj, hyp.lvl_le k hk alt hal j hj⟩
    | trans x y z _ _ ih1 ih2 =>
      intro hx
      obtain ⟨hy, l1, e1⟩ := ih1 hx
      obtain ⟨hz, l2, e2⟩ := ih2 hy
      refine ⟨hz, Nat.le_trans l2 l1, fun e => ?_⟩
      have e3 : lvl y = lvl x := by omega
      have e4 : lvl z = lvl y := by omega
      rw [e2 e4, e1 e3]
  obtain ⟨hb, l1, e1⟩ := key a b hab ha
  obtain ⟨_, l2, _⟩ := key b a hba hb
  exact (e1 (Nat.le_antisymm l1 l2)).symm

/-- F13 (`Props/C10.lean`): `G :- C | true` inductive, `C :- G` coinductive — a mixed cycle; it has no
    stratification, so it is outside the class (and the model's answers there do depend on the
    history: `C10.cache_transparent_refuted`) -/
def f13 : Instance := Instance.ofTable [(false, true, [[1], []]), (true, true, [[0]])]

theorem f13_not_stratified (P : Nat → Prop) (lvl : Nat → Nat) : ¬ MHyp f13 P [0, 1] lvl := by
  intro hyp
  have h01 := hyp.lvl_le 0 (by decide) [1] (by decide) 1 (by decide)
  have h10 := hyp.lvl_le 1 (by decide) [0] (by decide) 0 (by decide)
  have e : lvl 1 = lvl 0 := Nat.le_antisymm h01.1 h10.1
  have := h01.2 e
  revert this
  decide

/-- sanity: on an instance all of whose goals are coinductive the stratified truth is the greatest
    fixed point (so `mixed_strata_correct` contains case (A) of `Props/C05fp.lean` for such instances) … -/
theorem strat_all_coinductive (inst : Instance) (h : ∀ k, inst.coind k = true) :
    Strat inst (Cyc.InGfp inst) := by
  refine ⟨Cyc.inGfp_iff inst, ?_, ?_⟩
  · intro S hS
    exact Cyc.Tgt.coind (c := true) (inst := inst) S (fun k hk => (hS k hk).2)
  · intro N hN k hk
    have := (hN k hk).1
    rw [h k] at this
    cases this

/-- … and on an all-inductive instance the least fixed point (case (B)) -/
theorem strat_all_inductive (inst : Instance) (h : ∀ k, inst.coind k = false) :
    Strat inst (Cyc.InLfp inst) := by
  refine ⟨Cyc.inLfp_iff inst, ?_, ?_⟩
  · intro S hS k hk
    have := (hS k hk).1
    rw [h k] at this
    cases this
  · intro N hN
    exact Cyc.Tgt.coind (c := false) (inst := inst) N (fun k hk => (hN k hk).2)

/-! ### non-vacuity: a stratified instance with cycles of both polarities -/

/-- `0 :- 0, 1.` (co)  `1 :- 1.` (ind)  `2 :- 2, 3.` (co)  `3.` (ind)  `4 :- 4 | 2.` (ind)
    `5 :- 5, 4 | 0.` (co).  Stratified truth: `1` fails (inductive self-loop), so `0` fails although
    it is a coinductive cycle; `3`, `2`, `4`, `5` hold. -/
def strata : Instance :=
  Instance.ofTable [(true, true, [[0, 1]]), (false, true, [[1]]), (true, true, [[2, 3]]), (false, true, [[]]),
    (false, true, [[4], [2]]), (true, true, [[5, 4], [0]])]

def strataP (k : Nat) : Prop := k = 2 ∨ k = 3 ∨ k = 4 ∨ k = 5
def strataLvl (k : Nat) : Nat := match k with | 0 => 1 | 2 => 1 | 4 => 2 | 5 => 3 | _ => 0

theorem strata_deps_ge (k : Nat) : strata.deps (k + 6) = [] ∧ strata.coind (k + 6) = false := by
  simp [strata, Instance.ofTable]

theorem strata_strat : Strat strata strataP := by
  refine ⟨?_, ?_, ?_⟩
  · intro k
    match k with
    | 0 => simp [strataP, JE, strata, Instance.ofTable]
    | 1 => simp [strataP, JE, strata, Instance.ofTable]
    | 2 => simp [strataP, JE, strata, Instance.ofTable]
    | 3 => simp [strataP, JE, strata, Instance.ofTable]
    | 4 => simp [strataP, JE, strata, Instance.ofTable]
    | 5 => simp [strataP, JE, strata, Instance.ofTable]
    | k + 6 => simp [strataP, JE, (strata_deps_ge k).1]
  · intro S hS k hk
    match k with
    | 0 =>
      exfalso
      obtain ⟨_, alt, ha, hall⟩ := hS 0 hk
      have : alt = [0, 1] := by simpa [strata, Instance.ofTable] using ha
      subst this
      cases hall 1 (by simp) with
      | inl h => have := (hS 1 h).1; revert this; simp [strata, Instance.ofTable]
      | inr h => revert h; simp [strataP]
    | 1 => have := (hS 1 hk).1; revert this; simp [strata, Instance.ofTable]
    | 2 => simp [strataP]
    | 3 => simp [strataP]
    | 4 => simp [strataP]
    | 5 => simp [strataP]
    | k + 6 => have := (hS _ hk).1; rw [(strata_deps_ge k).2] at this; cases this
  · intro N hN k hk
    match k with
    | 0 => simp [strataP]
    | 1 => simp [strataP]
    | 2 => have := (hN 2 hk).1; revert this; simp [strata, Instance.ofTable]
    | 3 =>
      exfalso
      obtain ⟨j, hj, _⟩ := (hN 3 hk).2 [] (by simp [strata, Instance.ofTable])
      cases hj
    | 4 =>
      exfalso
      obtain ⟨j, hj, h⟩ := (hN 4 hk).2 [2] (by simp [strata, Instance.ofTable])
      have : j = 2 := by simpa using hj
      subst this
      cases h with
      | inl h => have := (hN 2 h).1; revert this; simp [strata, Instance.ofTable]
      | inr h => exact h (by simp [strataP])
    | 5 => have := (hN 5 hk).1; revert this; simp [strata, Instance.ofTable]
    | k + 6 => simp [strataP]

theorem strata_hyp : MHyp strata strataP [0, 1, 2, 3, 4, 5] strataLvl :=
  ⟨by decide, by decide, strata_strat, by decide⟩

/-- the solver on `strata`, cache on and off, in two orders -/
example : outcomes strata (Cfg.current 6 2) ([0, 1, 2, 3, 4, 5].map Call.plain) (St.fresh true) =
    [.value .noSolution, .value .noSolution, .value .unique, .value .unique, .value .unique, .value .unique] := by
  decide
example : outcomes strata (Cfg.current 6 2) ([5, 0, 4].map Call.plain) (St.fresh false) =
    [.value .unique, .value .noSolution, .value .unique] := by decide

/-- by the theorem: goal `5` holds in the stratified semantics whatever was solved before -/
example (gs : List Nat) (hd : ∀ g, g ∈ gs → g ∈ [0, 1, 2, 3, 4, 5]) (b : Bool) :
    solveOn strata (Cfg.current 6 2) 5 (runHistory strata (Cfg.current 6 2) (gs.map Call.plain) (St.fresh b)) =
      .value .unique := by
  obtain ⟨v, h1, h2, _⟩ := mixed_history_correct strata strataP _ strataLvl strata_hyp (Cfg.current 6 2) rfl rfl
    (by decide) (by decide) b gs hd 5 (by decide)
  rw [h1, h2.mpr (by simp [strataP])]

end Chalk.FixedPoint.C05mixed

#print axioms Chalk.FixedPoint.C05mixed.holds_iff
#print axioms Chalk.FixedPoint.C05mixed.mixed_strata_correct
#print axioms Chalk.FixedPoint.C05mixed.mixed_history_correct
#print axioms Chalk.FixedPoint.C05mixed.mixed_answers_agree
#print axioms Chalk.FixedPoint.C05mixed.stratified_truth_unique
#print axioms Chalk.FixedPoint.C05mixed.no_mixed_cycle_of_lvl
#print axioms Chalk.FixedPoint.C05mixed.f13_not_stratified
#print axioms Chalk.FixedPoint.C05mixed.strat_all_coinductive
#print axioms Chalk.FixedPoint.C05mixed.strat_all_inductive
#print axioms Chalk.FixedPoint.C05mixed.strata_deps_ge
#print axioms Chalk.FixedPoint.C05mixed.strata_strat
#print axioms Chalk.FixedPoint.C05mixed.strata_hyp

/-! ## existence of the stratified truth (added later)

  A stratified truth predicate exists for EVERY instance: the alternating fixed point
  `StratP inst = ν X. μ Y. T(coinductive sub-goals from X, inductive sub-goals from Y)`
  (`Lemmas/FixedPointMixS.lean`, `strat_stratP`; no stratification needed for existence).  Under a
  stratification it is the only one on `dom`, so `P` need not be a hypothesis any more. -/

namespace Chalk.FixedPoint.C05mixed
open Chalk.FixedPoint.Cyc (JE JA InCache)
open Chalk.FixedPoint.Mix

/-- existence, for every instance -/
theorem stratified_truth_exists (inst : Instance) : Strat inst (StratP inst) := strat_stratP inst

/-- the hypotheses on the instance alone: `dom` closed and ground, `lvl` a stratification -/
structure Stratified (inst : Instance) (dom : List Nat) (lvl : Nat → Nat) : Prop where
  closed : ∀ k, k ∈ dom → ∀ alt, alt ∈ inst.deps k → ∀ j, j ∈ alt → j ∈ dom
  ground : ∀ k, k ∈ dom → inst.ground k = true
  lvl_le : ∀ k, k ∈ dom → ∀ alt, alt ∈ inst.deps k → ∀ j, j ∈ alt →
    lvl j ≤ lvl k ∧ (lvl j = lvl k → inst.coind j = inst.coind k)

theorem Stratified.mhyp {inst : Instance} {dom : List Nat} {lvl : Nat → Nat} (h : Stratified inst dom lvl) :
    MHyp inst (StratP inst) dom lvl :=
  ⟨h.closed, h.ground, strat_stratP inst, h.lvl_le⟩

/-- existence and uniqueness on `dom` of the stratified truth of a stratified instance -/
theorem stratified_truth_exists_unique (inst : Instance) (dom : List Nat) (lvl : Nat → Nat)
    (h : Stratified inst dom lvl) :
    Strat inst (StratP inst) ∧ ∀ P' : Nat → Prop, Strat inst P' → ∀ g, g ∈ dom → (P' g ↔ StratP inst g) :=
  ⟨strat_stratP inst, fun P' hP' g hg =>
    stratified_truth_unique inst P' (StratP inst) dom lvl lvl ⟨h.closed, h.ground, hP', h.lvl_le⟩ h.mhyp g hg⟩

/-- `mixed_strata_correct` without the truth predicate as a hypothesis: on a stratified instance the solver
    decides the canonical stratified truth `StratP inst` -/
theorem mixed_strata_correct_canonical (inst : Instance) (dom : List Nat) (lvl : Nat → Nat)
    (h : Stratified inst dom lvl) (overflowDepth rounds : Nat) (hov : dom.length ≤ overflowDepth)
    (hr : 2 ≤ rounds) (s : St) (hq : s.oracle = [] ∧ s.oracleDefault = true)
    (hok : ∀ k v, InCache s k v → (v = .unique ∧ StratP inst k) ∨ (v = .noSolution ∧ ¬ StratP inst k))
    (g : Nat) (hg : g ∈ dom) :
    ∃ v s', solveRootGoal inst (Cfg.current overflowDepth rounds) g s = .ok v s' ∧
      (v = .unique ↔ StratP inst g) ∧ (v = .noSolution ↔ ¬ StratP inst g) ∧ v ≠ .ambig ∧
      s'.stack = [] ∧ s'.graph = [] ∧ s'.cache.isSome = s.cache.isSome ∧
      (∀ k w, InCache s' k w → (w = .unique ∧ StratP inst k) ∨ (w = .noSolution ∧ ¬ StratP inst k)) :=
  mixed_strata_correct inst (StratP inst) dom lvl h.mhyp overflowDepth rounds hov hr s hq hok g hg

/-- … and for histories, cache on or off -/
theorem mixed_history_correct_canonical (inst : Instance) (dom : List Nat) (lvl : Nat → Nat)
    (h : Stratified inst dom lvl) (cfg : Cfg) (h3 : cfg.fixF3 = true) (h7 : cfg.fixF7 = true)
    (hov : dom.length ≤ cfg.overflowDepth) (hr : 2 ≤ cfg.rounds) (b : Bool)
    (gs : List Nat) (hd : ∀ g, g ∈ gs → g ∈ dom) (g : Nat) (hg : g ∈ dom) :
    ∃ v, solveOn inst cfg g (runHistory inst cfg (gs.map Call.plain) (St.fresh b)) = .value v ∧
      (v = .unique ↔ StratP inst g) ∧ (v = .noSolution ↔ ¬ StratP inst g) :=
  mixed_history_correct inst (StratP inst) dom lvl h.mhyp cfg h3 h7 hov hr b gs hd g hg

/-- `strata` is stratified, and its canonical truth is the one given by hand -/
theorem strata_stratified : Stratified strata [0, 1, 2, 3, 4, 5] strataLvl :=
  ⟨by decide, by decide, by decide⟩

example : StratP strata 5 ∧ ¬ StratP strata 0 := by
  have h := (stratified_truth_exists_unique strata _ strataLvl strata_stratified).2 strataP strata_strat
  exact ⟨(h 5 (by decide)).mp (by simp [strataP]), fun h0 => by
    have := (h 0 (by decide)).mpr h0
    simp [strataP] at this⟩

end Chalk.FixedPoint.C05mixed

#print axioms Chalk.FixedPoint.C05mixed.stratified_truth_exists
#print axioms Chalk.FixedPoint.C05mixed.Stratified.mhyp
#print axioms Chalk.FixedPoint.C05mixed.stratified_truth_exists_unique
#print axioms Chalk.FixedPoint.C05mixed.mixed_strata_correct_canonical
#print axioms Chalk.FixedPoint.C05mixed.mixed_history_correct_canonical
#print axioms Chalk.FixedPoint.C05mixed.strata_stratified
