/-
  C26 — type flags summarize a type's contents accurately.
  Property theorems only; helper lemmas live in `Lemmas/FlagsLemmas.lean`.
-/
import ChalkModel.Lemmas.FlagsLemmas

namespace Chalk.C26

/-- Every occurrence flag (all of `TypeFlags` except `STILL_FURTHER_SPECIALIZABLE`) is set in the
    flags of a type exactly when a leaf of the kind it reports occurs somewhere inside the type;
    `Ty.leaves` is a plain traversal that does not mention flags, `Flag.reports` is the table
    "flag ↔ kinds of leaf" fixed in `Flags.lean`.  All types, unbounded. -/
theorem flags_iff_occurs (f : Flag) (hf : f ≠ .stillFurtherSpecializable) (t : Ty) :
    f ∈ t.computeFlags ↔ ∃ lf ∈ t.leaves, f.reports lf = true :=
  Ty.flag_iff f hf t

/-- The `u16` stored with the type has bit `f` set iff a reported leaf occurs. -/
theorem bits_iff_occurs (f : Flag) (hf : f ≠ .stillFurtherSpecializable) (t : Ty) :
    (Flags.toBits t.computeFlags).testBit f.bit = true ↔ ∃ lf ∈ t.leaves, f.reports lf = true := by
  rw [Flags.testBit_toBits]; exact Ty.flag_iff f hf t

/-- Same statement for generic arguments / substitutions and `dyn` bounds. -/
theorem flags_iff_occurs_args (f : Flag) (hf : f ≠ .stillFurtherSpecializable) (a : Args) :
    f ∈ a.computeFlags ↔ ∃ lf ∈ a.leaves, f.reports lf = true :=
  Args.flag_iff f hf a

/-- Distinct flags occupy distinct bits (so the bit test identifies the flag). -/
theorem bit_injective (f g : Flag) (h : f.bit = g.bit) : f = g := by
  cases f <;> cases g <;> simp [Flag.bit] at h <;> rfl

/-- Non-vacuity: a concrete type with several leaves, and its exact `u16`. -/
example :
    let t := Ty.ref false .static (.app (.adt 3) (.cons (.ty (.infer 2 .general)) (.cons (.lt (.placeholder 1 0)) .nil)))
    Flags.toBits t.computeFlags = 4177 ∧ Flag.hasTyInfer ∈ t.computeFlags ∧ Flag.hasError ∉ t.computeFlags := by
  decide

end Chalk.C26

#print axioms Chalk.C26.flags_iff_occurs
#print axioms Chalk.C26.bits_iff_occurs
#print axioms Chalk.C26.flags_iff_occurs_args
#print axioms Chalk.C26.bit_injective
