/-
  C22 — the program writer (`chalk-solve/src/display.rs` …) can be read back.
  Property theorems only.  Models: `ChalkModel/Display.lean` (the writer `print`, and `reparse` =
  what parsing + lowering does to a printed program) and `ChalkModel/Parse.lean` (`parseProgram`, a
  parser for the writer's token language); both are differentially validated against the Rust code.
  Helper lemmas: `Lemmas/Display*.lean`.

  Vocabulary (all decidable, defined in the lemma files):
  * `Faithful p` (`Lemmas/DisplayDefs.lean`): the parser state `p : PSt` (writer state `p.st` +
    kinds `p.env` of the binders in scope) has `p.st.deep = p.env.length` and decodes every in-scope
    variable token the writer state produces back to the variable.
  * `WfTy p t` = `wfTy p.env t = true`: every bound variable of `t` refers to an existing binder
    of the right kind (type variables and `GArg.ty (.bound ..)`: `ty`, constants: `ct`, lifetimes:
    `lt`), binders being introduced as writer and parser introduce them (`fnPtr nb`:
    `List.replicate nb .lt`; `dyn`: `[.ty]`, then each bound's own `ks`); a `dyn` has at least
    one bound.  `WfWC`, `WfQWC` likewise for where-clauses (`Lemmas/DisplayWhere.lean`).
  * `WfProgram p` (`Lemmas/DisplayItems.lean`): every item is well-formed: a struct has exactly one
    field list, a trait's `kinds` start with `.ty` (`Self`), an associated type's `kinds` are the
    trait's followed by its own, a value's `kinds` are the impl's followed by its own, and all
    clauses / types / bounds are well-formed in the state they are printed in.  (Flags, `repr`
    and `lang` attributes round-trip unconditionally.)
  * `p ≈ q` (`Program.Equiv`, `Lemmas/DisplayEquiv.lean`): same items, where-clause lists and the
    bound lists of `dyn` types compared as sets.  `Lowered p`: every alias-eq where-clause is
    accompanied by its `Implemented` clause and every alias-eq bound of a `dyn` by its trait bound
    (what lowering always produces).  `NoAliasEq p`: no alias-eq clause / `dyn` bound at all.
-/
import ChalkModel.Lemmas.DisplayItems
import ChalkModel.Lemmas.DisplayEquiv

namespace Chalk.C22
open Chalk.Display Chalk.Display.Parse

/-! ## P1: types -/

/-- the initial state is faithful -/
theorem faithful_init : Faithful PSt.init := Faithful.init

/-- faithfulness is preserved by entering a binder (`add_debrujin_index(None)`) -/
theorem faithful_deeper {p : PSt} (h : Faithful p) (ks : List VK) : Faithful (p.deeper ks none) :=
  h.deeper ks

/-- the state of a trait (`Self` is binder 0 of the first level) -/
theorem faithful_trait (own : List VK) : Faithful (PSt.init.deeper (.ty :: own) (some 0)) :=
  Parse.faithful_trait own

/-- the state inside an associated type (value) of an item with binders `ks0`: the binder level
    `ks0 ++ own`, whose first `ks0.length` binders are written under the item's names -/
theorem faithful_mapped {p : PSt} (h : Faithful p) (hre : p.st.remap = []) {ks0 : List VK}
    {tl : List (List VK)} (henv : p.env = ks0 :: tl) (own : List VK) :
    Faithful (p.mapped ks0.length (ks0 ++ own)) :=
  h.mapped hre henv own

/-- Continuation form: in a faithful state the parser reads a printed well-formed type back and
    stops exactly behind it, whatever follows (provided it does not start with `<`, which never
    follows a type in the writer's output), with any fuel `≥ szTy t`. -/
theorem parseTy_printTy_cont {p : PSt} {t : Ty} {fuel : Nat} {rest : List Tok}
    (hp : Faithful p) (hwf : WfTy p t) (hfuel : szTy t ≤ fuel) (hrest : ∀ r, rest ≠ .kw "<" :: r) :
    parseTy fuel p (printTy p.st t ++ rest) = some (t, rest) :=
  parseTy_print hp hwf hfuel hrest

/-- the fuel `parseTyTop`/`parseProgram` supply is enough -/
theorem szTy_le_fuelFor (s : St) (t : Ty) : szTy t ≤ fuelFor (printTy s t) := by
  have := szTy_le t s
  simp only [fuelFor]; omega

/-- **Types round-trip.** -/
theorem parseTy_printTy (p : PSt) (t : Ty) (hp : Faithful p) (hwf : WfTy p t) :
    parseTyTop p (printTy p.st t) = some t :=
  parseTyTop_print hp hwf

/-- non-empty lists of bounds (of a `dyn`, of an associated type), continuation form: what follows
    may start with `+` only if a lifetime comes next -/
theorem parseBounds_printBounds {p : PSt} {bs : Bounds} {fuel : Nat} {rest : List Tok}
    (hp : Faithful p) (hne : bs ≠ .nil) (hwf : wfBounds p.env bs = true) (hfuel : szBounds bs ≤ fuel)
    (h1 : ∀ r, rest ≠ .kw "<" :: r) (h2 : ∀ r, rest = .kw "+" :: r → isLtStart r = true) :
    parseBounds fuel p (printBounds p.st bs ++ rest) = some (bs, rest) :=
  parseBounds_of_all bs (boundsOK bs) p fuel rest hp hne hwf hfuel h1 h2

/-! ## P2: where-clauses -/

theorem parseQWC_printQWC {p : PSt} {q : QWC} {fuel : Nat} {rest : List Tok}
    (hp : Faithful p) (hwf : WfQWC p q) (hfuel : 8 * (printQWC p.st q).length ≤ fuel)
    (hrest : ∀ r, rest ≠ .kw "<" :: r) :
    parseQWC fuel p (printQWC p.st q ++ rest) = some (q, rest) :=
  parseQWC_print hp hwf hfuel hrest

/-- the `where` part of an item; it is followed by `{` or `;` -/
theorem parseWhere_printWhere {p : PSt} {ws : List QWC} {fuel : Nat} {rest : List Tok}
    (hp : Faithful p) (hwf : ∀ q ∈ ws, WfQWC p q) (hfuel : 8 * (printWhere p.st ws).length + 1 ≤ fuel)
    (h0 : ∀ r, rest ≠ .kw "where" :: r) (h1 : ∀ r, rest ≠ .kw "<" :: r) (h2 : ∀ r, rest ≠ .kw "," :: r) :
    parseWhere fuel p (printWhere p.st ws ++ rest) = some (ws, rest) :=
  parseWhere_print hp (List.all_eq_true.2 hwf) hfuel h0 h1 h2

/-! ## P3: items and programs -/

theorem parseItem_printItem (it : Item) (hwf : WfItem it) (fuel : Nat)
    (hfuel : 8 * (printItem it).length + 16 ≤ fuel) (rest : List Tok) :
    parseItem fuel (printItem it ++ rest) = some (it, rest) :=
  parseItem_print it hwf fuel hfuel rest

/-- **Programs round-trip**: the parser inverts the writer. -/
theorem parse_print (p : Program) (hwf : WfProgram p) : parseProgram (print p) = some p :=
  parseProgram_print p hwf

/-! ## P4: the property's own sentences -/

/-- parsing + lowering a printed lowered program gives an equivalent program -/
theorem reparse_equiv (p : Program) (h : Lowered p = true) : reparse p ≈ p :=
  Display.reparse_equiv p h

/-- **The round trip `print; parse; lower` preserves the program up to `≈`.** -/
theorem parse_print_equiv (p : Program) (hwf : WfProgram p) (hl : Lowered p = true) :
    ∃ p', parseProgram (print p) = some p' ∧ reparse p' ≈ p :=
  ⟨p, parse_print p hwf, reparse_equiv p hl⟩

/-- without alias-eq clauses and bounds the rendering is stable under the round trip -/
theorem print_stable_partial (p : Program) (h : NoAliasEq p = true) : print (reparse p) = print p :=
  Display.print_stable_partial p h

/-- … and so is the second rendering of the parsed program -/
theorem print_stable_partial_parsed (p : Program) (hwf : WfProgram p) (h : NoAliasEq p = true) :
    ∃ p', parseProgram (print p) = some p' ∧ print (reparse p') = print p :=
  ⟨p, parse_print p hwf, print_stable_partial p h⟩

/-- The unrestricted statement "the rendering is stable" is false of the model, as it is of the
    code: every round trip adds the implied bound once more.  Witness:
    `trait Baux { type Assoc; }  struct Foo<T> where T: Baux<Assoc = T>, T: Baux {}`. -/
theorem print_stable_refuted :
    WfProgram refuteW ∧ Lowered refuteW = true ∧ parseProgram (print refuteW) = some refuteW ∧
      print (reparse refuteW) ≠ print refuteW :=
  ⟨by decide, by decide, by decide, Display.print_stable_refuted⟩

/-! ## Non-vacuity -/

/-- `exBig` (`Lemmas/DisplayEquiv.lean`): a struct with lifetime, type and const parameters,
    `&'a mut T`, `[T; N]`, `for<'x> fn(&'x u8, T) -> u8`, `dyn A + B + B<X = u8> + 'static`,
    `<T as Tr>::Assoc`; a trait with an associated type with a bound and a where-clause; an impl
    with a value. -/
example : WfProgram exBig := by decide
example : Lowered exBig = true := by decide
example : parseProgram (print exBig) = some exBig := by decide
example : reparse exBig ≠ exBig := by decide
example : reparse exBig ≈ exBig := by decide

/-- more syntax: attributes, an enum with an empty variant, the 1-tuple and unit, a marker trait,
    `forall<'a>` clauses, a generic associated type with own parameters and a quantified bound,
    an alias-eq where-clause with its implied clause, raw pointer / slice / `fn() -> !` / `str`,
    constant arguments, a `dyn` with quantified alias-eq bound, a negative impl, an impl with
    const parameter and generic associated type value -/
def exMore : Program :=
  [ .adt ⟨"E", true, true, false, false, true, false, some .u8, true, [.ty], [],
      [[.tuple (.cons (.bound 0 0) .nil), .tuple .nil], []]⟩,
    .trait ⟨"Sz", true, false, false, false, false, false, false, some "sized", [.ty], [], []⟩,
    .trait ⟨"Conv", false, true, false, false, true, true, true, none, [.ty, .ty], [], []⟩,
    .trait ⟨"Iter", false, false, false, false, false, false, false, none, [.ty, .ty],
      [⟨[.lt], .tyOutlives (.bound 1 1) (.bound 0 0)⟩],
      [⟨"Item", [.ty, .ty, .lt, .ty],
        [.trait [] "Sz" .nil, .trait [.lt] "Conv" (.cons (.ty (.ref false (.bound 0 0) (.bound 1 3))) .nil)],
        [⟨[], .implemented (.bound 1 3) "Sz" .nil⟩, ⟨[], .ltOutlives (.bound 1 2) .static⟩]⟩]⟩,
    .adt ⟨"W", false, false, true, true, false, true, none, false, [.ty, .ty],
      [⟨[], .aliasEq (.bound 1 0) "Iter" "Item" (.cons (.ty (.bound 1 1)) .nil)
          (.cons (.lt .static) (.cons (.ty (.bound 1 1)) .nil)) (.scalar .u8)⟩,
       ⟨[], .implemented (.bound 1 0) "Iter" (.cons (.ty (.bound 1 1)) .nil)⟩],
      [[.raw true (.slice (.bound 0 0)), .fnPtr 0 .nil .never, .ref false .erased .str]]⟩,
    .adt ⟨"Arr", false, false, false, false, false, false, none, false, [.ct], [],
      [[.array (.scalar .u8) (.bound 0 0), .adt "Arr" (.cons (.ct (.val 3)) .nil),
        .adt "Arr" (.cons (.ct (.bound 0 0)) .nil)]]⟩,
    .adt ⟨"D", false, false, false, false, false, false, none, false, [.lt], [],
      [[.dyn (.cons (.trait [.lt] "Iter" (.cons (.ty (.scalar .u8)) .nil))
          (.cons (.aliasEq [.lt] "Iter" "Item" (.cons (.ty (.scalar .u8)) .nil)
            (.cons (.lt (.bound 0 0)) (.cons (.ty (.bound 1 0)) .nil)) (.bound 1 0)) .nil)) (.bound 0 0)]]⟩,
    .impl ⟨false, [.ty], true, "Sz", .nil,
      .adt "W" (.cons (.ty (.bound 0 0)) (.cons (.ty (.bound 0 0)) .nil)), [], []⟩,
    .impl ⟨true, [.ty, .ct], false, "Iter", .cons (.ty (.bound 0 0)) .nil, .array (.bound 0 0) (.bound 0 1),
      [⟨[], .implemented (.bound 1 0) "Sz" .nil⟩],
      [⟨"Item", [.ty, .ct, .lt, .ty], .ref false (.bound 0 2) (.bound 0 3)⟩]⟩ ]

example : WfProgram exMore := by decide
example : Lowered exMore = true := by decide
set_option maxRecDepth 100000 in
example : parseProgram (print exMore) = some exMore := by decide
set_option maxRecDepth 100000 in
example : print (reparse exMore) ≠ print exMore := by decide
example : ∃ p', parseProgram (print exMore) = some p' ∧ reparse p' ≈ exMore :=
  parse_print_equiv exMore (by decide) (by decide)

/-- a type in the scope `['a, T, const N]`, read back by `parseTyTop` -/
example : parseTyTop (PSt.init.deeper [.lt, .ty, .ct] none)
    (printTy (St.init.deeper none)
      (.fnPtr 1 (.cons (.ref true (.bound 0 0) (.array (.bound 1 1) (.bound 1 2))) .nil) (.tuple .nil)))
    = some (.fnPtr 1 (.cons (.ref true (.bound 0 0) (.array (.bound 1 1) (.bound 1 2))) .nil) (.tuple .nil)) := by
  decide

/-- well-formedness is not vacuous the other way: a dangling variable, a type variable used as a
    constant, and an empty `dyn` are rejected -/
example : ¬ WfTy (PSt.init.deeper [.ty] none) (.bound 0 1) := by decide
example : ¬ WfTy (PSt.init.deeper [.ty] none) (.array (.scalar .u8) (.bound 0 0)) := by decide
example : ¬ WfTy PSt.init (.dyn .nil .static) := by decide
/-- … and the parser indeed cannot read an empty `dyn` back -/
example : parseTyTop PSt.init (printTy St.init (.dyn .nil .static)) = none := by decide

end Chalk.C22

#print axioms Chalk.C22.faithful_init
#print axioms Chalk.C22.faithful_deeper
#print axioms Chalk.C22.faithful_trait
#print axioms Chalk.C22.faithful_mapped
#print axioms Chalk.C22.parseTy_printTy_cont
#print axioms Chalk.C22.szTy_le_fuelFor
#print axioms Chalk.C22.parseTy_printTy
#print axioms Chalk.C22.parseBounds_printBounds
#print axioms Chalk.C22.parseQWC_printQWC
#print axioms Chalk.C22.parseWhere_printWhere
#print axioms Chalk.C22.parseItem_printItem
#print axioms Chalk.C22.parse_print
#print axioms Chalk.C22.reparse_equiv
#print axioms Chalk.C22.parse_print_equiv
#print axioms Chalk.C22.print_stable_partial
#print axioms Chalk.C22.print_stable_partial_parsed
#print axioms Chalk.C22.print_stable_refuted
