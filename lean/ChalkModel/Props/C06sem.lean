/-
  C06 (semantic half) — "inside `if (T: Trait) { G }` the goal G is provable exactly when it follows
  from the PROGRAM TOGETHER WITH THE HYPOTHESIS; assumptions never leak out of their scope."

  `Props/C06.lean` proves monotonicity in the hypotheses only for programs without coinductive
  predicates and has no statement that a hypothesis behaves like a program fact.  Here, for ALL
  programs of `Sem.lean` (both strata, any `coind` function):

    1. weakening   (`coHolds_weaken`, `holds_weaken`, `gholds_weaken`; refuted with negation),
    2. cut         (`holds_cut` — TRUE in full for mixed programs; `holds_coind_iff_coHolds` is the
                    reason: for a coinductive predicate `Holds` and `CoHolds` coincide),
    3. deduction   (`hyp_iff_fact`: a GROUND hypothesis is exactly an added program fact, for atoms
                    of both strata and for every goal, negation included; refuted for non-ground h),
    4. no leak     (`no_leak`, `outside_scope_independent`, `sibling_evaluated_outside`),
    5. non-vacuity on a program with one coinductive and one inductive predicate.

  Nothing is weakened: every statement requested is proved in full (no `_partial` versions needed);
  the two refutations (`weaken_fails_with_negation`, `hyp_iff_fact_needs_ground`) are of statements
  that were never claimed, and mark the exact boundary of the positive results.
-/
import ChalkModel.Lemmas.HypLemmas
import ChalkModel.Lemmas.GoalLemmas

namespace Chalk.C06sem
open Chalk.Sem

/-! ### the demo program: `Send` coinductive (auto trait), `Foo` inductive

      Send(Box(x)) :- Send(x).        (coinductive)
      Foo(x)       :- Send(x).        (inductive)

    `!T`, `!U` are opaque constants (placeholders). -/

def T : Tm := .app "!T" .nil
def U : Tm := .app "!U" .nil
def box (t : Tm) : Tm := .app "Box" (.cons t .nil)
def send (t : Tm) : Atom := ⟨"Send", .cons t .nil⟩
def foo (t : Tm) : Atom := ⟨"Foo", .cons t .nil⟩

def demo : Program :=
  ⟨[⟨send (box (.var 0)), [send (.var 0)]⟩, ⟨foo (.var 0), [send (.var 0)]⟩], fun p => p == "Send"⟩

/-- the empty program, everything inductive -/
def empty : Program := ⟨[], fun _ => false⟩

/-- certified answers of the Stage-A evaluator, used only for the concrete examples -/
theorem decide_yes (P : Program) (fuel : Nat) (Γ : List Atom) (g : Goal)
    (h : evalGoal P fuel Γ g = .yes) : GHolds P Γ g := (evalGoal_sound P fuel g Γ).1 h
theorem decide_no (P : Program) (fuel : Nat) (Γ : List Atom) (g : Goal)
    (h : evalGoal P fuel Γ g = .no) : ¬ GHolds P Γ g := (evalGoal_sound P fuel g Γ).2 h

/-! ## 1. Weakening -/

theorem coHolds_weaken (P : Program) (Γ Δ : List Atom) (hsub : ∀ a, a ∈ Γ → a ∈ Δ) (a : Atom) :
    CoHolds P Γ a → CoHolds P Δ a := CoHolds.weaken hsub

theorem holds_weaken (P : Program) (Γ Δ : List Atom) (hsub : ∀ a, a ∈ Γ → a ∈ Δ) (a : Atom) :
    Holds P Γ a → Holds P Δ a := Holds.weaken hsub

theorem gholds_weaken (P : Program) (Γ Δ : List Atom) (hsub : ∀ a, a ∈ Γ → a ∈ Δ) (g : Goal)
    (hp : g.Positive) : GHolds P Γ g → GHolds P Δ g := GHolds.weaken g hp Γ Δ hsub

/-- only the set of hypotheses matters (every goal, negation included) -/
theorem gholds_congr_mem (P : Program) (Γ Δ : List Atom) (hiff : ∀ a, a ∈ Γ ↔ a ∈ Δ) (g : Goal) :
    GHolds P Γ g ↔ GHolds P Δ g := GHolds.congr_mem g Γ Δ hiff

/-- weakening is false for goals with negation: `not { Foo(!T) }` holds in the demo program without
    hypotheses and fails under the additional hypothesis `Send(!T)` -/
theorem weaken_fails_with_negation :
    (∀ a, a ∈ ([] : List Atom) → a ∈ [send T]) ∧
    GHolds demo [] (.not (.atom (foo T))) ∧ ¬ GHolds demo [send T] (.not (.atom (foo T))) := by
  refine ⟨fun a ha => (nomatch ha), ?_, ?_⟩
  · exact decide_yes demo 10 [] _ (by decide)
  · exact decide_no demo 10 [send T] _ (by decide)

/-- …so the positivity hypothesis of `gholds_weaken` cannot be dropped -/
theorem gholds_weaken_needs_positive :
    ¬ ∀ (P : Program) (Γ Δ : List Atom), (∀ a, a ∈ Γ → a ∈ Δ) → ∀ g : Goal, GHolds P Γ g → GHolds P Δ g := by
  intro h
  obtain ⟨h1, h2, h3⟩ := weaken_fails_with_negation
  exact h3 (h demo [] [send T] h1 _ h2)

/-! ## 2. Cut -/

/-- inversion: for an atom of a coinductive predicate only the first two disjuncts of `IndStep` apply -/
theorem holds_coind_iff (P : Program) (Δ : List Atom) (a : Atom) (hco : P.coind a.pred = true) :
    Holds P Δ a ↔ a ∈ Δ ∨ CoHolds P Δ a := Sem.holds_coind_iff hco

/-- …and membership is subsumed (consistent singleton): `Holds` IS `CoHolds` on coinductive predicates -/
theorem holds_coind_iff_coHolds (P : Program) (Δ : List Atom) (a : Atom) (hco : P.coind a.pred = true) :
    Holds P Δ a ↔ CoHolds P Δ a := Sem.holds_coind_iff_coHolds hco

/-- inversion for an atom of an inductive predicate -/
theorem holds_ind_iff (P : Program) (Δ : List Atom) (a : Atom) (hco : P.coind a.pred = false) :
    Holds P Δ a ↔ a ∈ Δ ∨ ViaClause P (Holds P Δ) a := Sem.holds_ind_iff hco

/-- cut inside the coinductive stratum -/
theorem coHolds_cut (P : Program) (Γ Δ : List Atom) (hΓ : ∀ h, h ∈ Γ → Holds P Δ h) (a : Atom) :
    CoHolds P Γ a → CoHolds P Δ a :=
  CoHolds.cut fun h hh hco => (Sem.holds_coind_iff_coHolds hco).mp (hΓ h hh)

/-- CUT, in full, for every program (mixed strata included): hypotheses that are provable from `Δ`
    can be discharged -/
theorem holds_cut (P : Program) (Γ Δ : List Atom) (hΓ : ∀ h, h ∈ Γ → Holds P Δ h) (a : Atom) :
    Holds P Γ a → Holds P Δ a := Holds.cut hΓ

/-- cut for positive goals -/
theorem gholds_cut (P : Program) (Γ Δ : List Atom) (hΓ : ∀ h, h ∈ Γ → Holds P Δ h) (g : Goal)
    (hp : g.Positive) : GHolds P Γ g → GHolds P Δ g := GHolds.cut g hp Γ Δ hΓ

/-- the usual one-formula form: a lemma `h` proved from `Γ` may be used as a hypothesis -/
theorem holds_cut_one (P : Program) (Γ : List Atom) (h a : Atom) (hh : Holds P Γ h) :
    Holds P (h :: Γ) a → Holds P Γ a := by
  apply holds_cut
  intro x hx
  rcases List.mem_cons.mp hx with rfl | hx
  · exact hh
  · exact Holds.of_mem hx

/-- goal form of cut: `if (h) { g }` and `h` give `g` (positive `g`) -/
theorem modus_ponens (P : Program) (Γ : List Atom) (h : Atom) (g : Goal) (hp : g.Positive)
    (hh : Holds P Γ h) : GHolds P Γ (.implies [h] g) → GHolds P Γ g := by
  intro hg
  refine gholds_cut P ([h] ++ Γ) Γ ?_ g hp hg
  intro x hx
  rcases List.mem_cons.mp hx with rfl | hx
  · exact hh
  · exact Holds.of_mem hx

/-! ## 3. A ground hypothesis is an added program fact -/

theorem inst_ground (σ : Nat → Tm) (h : Atom) (hg : h.ground) : h.inst σ = h := Atom.inst_ground σ h hg

/-- DEDUCTION PROPERTY, atoms of both strata, every program -/
theorem hyp_iff_fact (P : Program) (Γ : List Atom) (h : Atom) (hg : h.ground) (a : Atom) :
    Holds P (h :: Γ) a ↔ Holds (P.addFact h) Γ a :=
  holds_hyp_iff_fact hg (fun _ => List.mem_cons) a

/-- the same inside the coinductive stratum -/
theorem coHolds_hyp_iff_fact (P : Program) (Γ : List Atom) (h : Atom) (hg : h.ground) (a : Atom) :
    CoHolds P (h :: Γ) a ↔ CoHolds (P.addFact h) Γ a :=
  Sem.coHolds_hyp_iff_fact hg (fun _ => List.mem_cons) a

/-- goal level — for EVERY goal (stronger than asked: negation is allowed, since this is an
    equivalence and nested `implies` only add further hypotheses on both sides) -/
theorem implies_iff_fact (P : Program) (Γ : List Atom) (h : Atom) (hg : h.ground) (g : Goal) :
    GHolds P Γ (.implies [h] g) ↔ GHolds (P.addFact h) Γ g :=
  gholds_hyp_iff_fact hg g ([h] ++ Γ) Γ (fun _ => List.mem_cons)

/-- the instance that was asked for -/
theorem implies_iff_fact_positive (P : Program) (Γ : List Atom) (h : Atom) (hg : h.ground) (g : Goal)
    (_hp : g.Positive) : GHolds P Γ (.implies [h] g) ↔ GHolds (P.addFact h) Γ g :=
  implies_iff_fact P Γ h hg g

/-- a whole list of ground hypotheses -/
theorem implies_iff_facts : (hyps : List Atom) → (P : Program) → (Γ : List Atom) →
    (∀ h, h ∈ hyps → h.ground) → (g : Goal) →
    (GHolds P Γ (.implies hyps g) ↔ GHolds (P.addFacts hyps) Γ g)
  | [], _, _, _, _ => Iff.rfl
  | h :: hs, P, Γ, hg, g => by
      have h1 : GHolds P Γ (.implies (h :: hs) g) ↔ GHolds (P.addFact h) (hs ++ Γ) g :=
        gholds_hyp_iff_fact (hg h List.mem_cons_self) g (h :: hs ++ Γ) (hs ++ Γ) (fun _ => List.mem_cons)
      rw [h1]
      exact implies_iff_facts hs (P.addFact h) Γ (fun x hx => hg x (List.mem_cons_of_mem _ hx)) g

/-- `if (hyps) { g }` with a closed environment is truth of `g` in the extended program:
    "G follows from the program together with the hypotheses" -/
theorem implies_iff_extended_program (P : Program) (hyps : List Atom) (hg : ∀ h, h ∈ hyps → h.ground)
    (g : Goal) : GHolds P [] (.implies hyps g) ↔ GHolds (P.addFacts hyps) [] g :=
  implies_iff_facts hyps P [] hg g

/-- groundness is necessary: a hypothesis with a variable is ONE atom, a fact with a variable is
    universally quantified.  `Foo(?0)` as a hypothesis does not give `Foo(!T)`; as a fact it does. -/
theorem hyp_iff_fact_needs_ground :
    ¬ (foo (.var 0)).ground ∧
    ¬ Holds empty [foo (.var 0)] (foo T) ∧ Holds (empty.addFact (foo (.var 0))) [] (foo T) := by
  refine ⟨?_, ?_, ?_⟩
  · simp [Atom.ground, foo, Tms.ground, Tm.ground]
  · exact decide_no empty 10 [foo (.var 0)] (.atom (foo T)) (by decide)
  · exact decide_yes (empty.addFact (foo (.var 0))) 10 [] (.atom (foo T)) (by decide)

theorem hyp_iff_fact_refuted_without_ground :
    ¬ ∀ (P : Program) (Γ : List Atom) (h a : Atom), Holds P (h :: Γ) a ↔ Holds (P.addFact h) Γ a := by
  intro hall
  obtain ⟨_, h2, h3⟩ := hyp_iff_fact_needs_ground
  exact h2 ((hall empty [] (foo (.var 0)) (foo T)).mpr h3)

/-! ## 4. No leak -/

theorem no_leak (P : Program) (Γ hyps : List Atom) (g g' : Goal) :
    GHolds P Γ (.and (.implies hyps g) g') → GHolds P Γ g' := fun h => h.2

/-- the sibling of an `if` is literally evaluated under the outer hypotheses `Γ` -/
theorem sibling_evaluated_outside (P : Program) (Γ hyps : List Atom) (g g' : Goal) :
    GHolds P Γ (.and (.implies hyps g) g') ↔ (GHolds P Γ (.implies hyps g) ∧ GHolds P Γ g') := Iff.rfl

/-- the truth of `g'` next to `if (hyps) { g }` does not depend on `hyps` -/
theorem outside_scope_independent (P : Program) (Γ hyps hyps2 : List Atom) (g g2 g' : Goal) :
    GHolds P Γ (.and (.implies hyps g) g') → GHolds P Γ (.implies hyps2 g2) →
    GHolds P Γ (.and (.implies hyps2 g2) g') := fun h h2 => ⟨h2, h.2⟩

/-- as an equivalence: once both `if`s hold, the conjunctions with `g'` are interchangeable -/
theorem outside_scope_independent_iff (P : Program) (Γ hyps hyps2 : List Atom) (g g2 g' : Goal)
    (h1 : GHolds P Γ (.implies hyps g)) (h2 : GHolds P Γ (.implies hyps2 g2)) :
    GHolds P Γ (.and (.implies hyps g) g') ↔ GHolds P Γ (.and (.implies hyps2 g2) g') :=
  ⟨fun h => ⟨h2, h.2⟩, fun h => ⟨h1, h.2⟩⟩

/-- the scope can be removed without touching the sibling: what `if (h) { g }` contributes is a
    statement about the EXTENDED program, what `g'` contributes is about the program itself -/
theorem scoped_fact (P : Program) (Γ : List Atom) (h : Atom) (hg : h.ground) (g g' : Goal) :
    GHolds P Γ (.and (.implies [h] g) g') ↔ (GHolds (P.addFact h) Γ g ∧ GHolds P Γ g') := by
  rw [sibling_evaluated_outside, implies_iff_fact P Γ h hg g]

/-- nested scopes accumulate -/
theorem nested_scopes (P : Program) (Γ h1 h2 : List Atom) (g : Goal) :
    GHolds P Γ (.implies h1 (.implies h2 g)) ↔ GHolds P Γ (.implies (h2 ++ h1) g) := by
  simp only [GHolds, List.append_assoc]

/-- the hypothesis really does not leak: in the demo program `if (Send(!T)) { Foo(!T) }` holds but
    its conjunction with the sibling `Foo(!T)` does not -/
theorem no_leak_demo :
    GHolds demo [] (.implies [send T] (.atom (foo T))) ∧
    ¬ GHolds demo [] (.and (.implies [send T] (.atom (foo T))) (.atom (foo T))) :=
  ⟨decide_yes demo 10 [] _ (by decide), decide_no demo 10 [] _ (by decide)⟩

/-! ## 5. Non-vacuity on the demo program (coinductive `Send`, inductive `Foo`) -/

theorem demo_strata : demo.coind "Send" = true ∧ demo.coind "Foo" = false := by decide

theorem send_T_ground : (send T).ground := by simp [Atom.ground, send, T, Tms.ground, Tm.ground]

/-- weakening used: `Foo(Box(!T))` from `Send(!T)`, hence from `Send(!U), Send(!T)`;
    the inductive atom is derived through the coinductive stratum -/
theorem ex_weaken : Holds demo [send U, send T] (foo (box T)) := by
  have h : Holds demo [send T] (foo (box T)) := decide_yes demo 10 [send T] (.atom _) (by decide)
  exact holds_weaken demo [send T] [send U, send T] (fun a ha => List.mem_cons_of_mem _ ha) _ h

/-- …and the coinductive atom itself -/
theorem ex_coweaken : CoHolds demo [send U, send T] (send (box T)) := by
  have h : Holds demo [send T] (send (box T)) := decide_yes demo 10 [send T] (.atom _) (by decide)
  have h' := (holds_coind_iff_coHolds demo [send T] (send (box T)) (by decide)).mp h
  exact coHolds_weaken demo [send T] [send U, send T] (fun a ha => List.mem_cons_of_mem _ ha) _ h'

/-- cut used across the strata: the COINDUCTIVE hypothesis `Send(Box(!T))` is provable (coinductively)
    from `Send(!T)`, and is discharged in the proof of the INDUCTIVE atom `Foo(Box(Box(!T)))` -/
theorem ex_cut : Holds demo [send T] (foo (box (box T))) := by
  have h1 : ∀ h, h ∈ [send (box T)] → Holds demo [send T] h := by
    intro h hh
    rw [List.mem_singleton] at hh
    subst hh
    exact decide_yes demo 10 [send T] (.atom _) (by decide)
  have h2 : Holds demo [send (box T)] (foo (box (box T))) :=
    decide_yes demo 10 [send (box T)] (.atom _) (by decide)
  exact holds_cut demo [send (box T)] [send T] h1 _ h2

/-- the hypothesis of `ex_cut` is not vacuous: without `Send(Box(!T))` or `Send(!T)` the atom fails -/
theorem ex_cut_needed : ¬ Holds demo [] (foo (box (box T))) :=
  decide_no demo 10 [] (.atom _) (by decide)

/-- deduction used, coinductive hypothesis: `Foo(Box(!T))` is a consequence of the program extended by
    the fact `Send(!T)`, and `Foo(!U)` is not -/
theorem ex_hyp_fact :
    Holds (demo.addFact (send T)) [] (foo (box T)) ∧ ¬ Holds (demo.addFact (send T)) [] (foo U) := by
  constructor
  · exact (hyp_iff_fact demo [] (send T) send_T_ground _).mp
      (decide_yes demo 10 [send T] (.atom _) (by decide))
  · intro h
    exact decide_no demo 10 [send T] (.atom (foo U)) (by decide)
      ((hyp_iff_fact demo [] (send T) send_T_ground _).mpr h)

/-- deduction used, inductive hypothesis: `Foo(!T)` assumed directly -/
theorem ex_hyp_fact_ind :
    Holds (demo.addFact (foo T)) [] (foo T) ∧ ¬ Holds (demo.addFact (foo T)) [] (send T) := by
  have hg : (foo T).ground := by simp [Atom.ground, foo, T, Tms.ground, Tm.ground]
  constructor
  · exact (hyp_iff_fact demo [] (foo T) hg _).mp (Holds.of_mem List.mem_cons_self)
  · intro h
    exact decide_no demo 10 [foo T] (.atom (send T)) (by decide)
      ((hyp_iff_fact demo [] (foo T) hg _).mpr h)

/-- goal level, with a negation inside the scope: `if (Send(!T)) { Foo(Box(!T)), not { Foo(!U) } }` -/
theorem ex_implies_fact :
    GHolds (demo.addFact (send T)) [] (.and (.atom (foo (box T))) (.not (.atom (foo U)))) :=
  (implies_iff_fact demo [] (send T) send_T_ground _).mp (decide_yes demo 10 [] _ (by decide))

/-- modus ponens used: `Send(Box(!T))` is provable from `Send(!T)`, so the `if` can be opened -/
theorem ex_modus_ponens : GHolds demo [send T] (.atom (foo (box (box T)))) := by
  refine modus_ponens demo [send T] (send (box T)) _ trivial ?_ ?_
  · exact decide_yes demo 10 [send T] (.atom _) (by decide)
  · exact decide_yes demo 10 [send T] _ (by decide)

/-- scoping used -/
theorem ex_scoped_fact :
    GHolds (demo.addFact (send T)) [] (.atom (foo T)) ∧ ¬ GHolds demo [] (.atom (foo T)) := by
  constructor
  · exact (implies_iff_fact demo [] (send T) send_T_ground _).mp no_leak_demo.1
  · exact decide_no demo 10 [] _ (by decide)

end Chalk.C06sem

#print axioms Chalk.C06sem.coHolds_weaken
#print axioms Chalk.C06sem.holds_weaken
#print axioms Chalk.C06sem.gholds_weaken
#print axioms Chalk.C06sem.gholds_congr_mem
#print axioms Chalk.C06sem.weaken_fails_with_negation
#print axioms Chalk.C06sem.gholds_weaken_needs_positive
#print axioms Chalk.C06sem.holds_coind_iff
#print axioms Chalk.C06sem.holds_coind_iff_coHolds
#print axioms Chalk.C06sem.holds_ind_iff
#print axioms Chalk.C06sem.coHolds_cut
#print axioms Chalk.C06sem.holds_cut
#print axioms Chalk.C06sem.gholds_cut
#print axioms Chalk.C06sem.holds_cut_one
#print axioms Chalk.C06sem.modus_ponens
#print axioms Chalk.C06sem.inst_ground
#print axioms Chalk.C06sem.hyp_iff_fact
#print axioms Chalk.C06sem.coHolds_hyp_iff_fact
#print axioms Chalk.C06sem.implies_iff_fact
#print axioms Chalk.C06sem.implies_iff_fact_positive
#print axioms Chalk.C06sem.implies_iff_facts
#print axioms Chalk.C06sem.implies_iff_extended_program
#print axioms Chalk.C06sem.hyp_iff_fact_needs_ground
#print axioms Chalk.C06sem.hyp_iff_fact_refuted_without_ground
#print axioms Chalk.C06sem.no_leak
#print axioms Chalk.C06sem.sibling_evaluated_outside
#print axioms Chalk.C06sem.outside_scope_independent
#print axioms Chalk.C06sem.outside_scope_independent_iff
#print axioms Chalk.C06sem.scoped_fact
#print axioms Chalk.C06sem.nested_scopes
#print axioms Chalk.C06sem.no_leak_demo
#print axioms Chalk.C06sem.demo_strata
#print axioms Chalk.C06sem.send_T_ground
#print axioms Chalk.C06sem.ex_weaken
#print axioms Chalk.C06sem.ex_coweaken
#print axioms Chalk.C06sem.ex_cut
#print axioms Chalk.C06sem.ex_cut_needed
#print axioms Chalk.C06sem.ex_hyp_fact
#print axioms Chalk.C06sem.ex_hyp_fact_ind
#print axioms Chalk.C06sem.ex_implies_fact
#print axioms Chalk.C06sem.ex_modus_ponens
#print axioms Chalk.C06sem.ex_scoped_fact
#print axioms Chalk.C06sem.decide_yes
#print axioms Chalk.C06sem.decide_no
