/-
  C02 — goals without unknown types are decided definitively, as the program's meaning dictates.
  The deciding object is the acceptance predicate `judgeGround`: the check accepts a solver answer
  only through it, and these theorems say what an acceptance certifies.
-/
import ChalkModel.Lemmas.GoalLemmas
import ChalkModel.OpsSem

namespace Chalk.C02
open Chalk.Sem

/-- Stage A is sound in both directions, for every program, hypothesis list, goal and fuel. -/
theorem decide_yes (P : Program) (fuel : Nat) (Γ : List Atom) (g : Goal)
    (h : evalGoal P fuel Γ g = .yes) : GHolds P Γ g := (evalGoal_sound P fuel g Γ).1 h

theorem decide_no (P : Program) (fuel : Nat) (Γ : List Atom) (g : Goal)
    (h : evalGoal P fuel Γ g = .no) : ¬ GHolds P Γ g := (evalGoal_sound P fuel g Γ).2 h

/-- An accepted `unique` answer: the goal holds.  An accepted `none`: it does not.  `ambig` is
    never accepted. -/
theorem accepted_unique (P : Program) (fuel : Nat) (g : Goal) (st d : Sexp)
    (h : judgeGround (evalGoal P fuel [] g) .unique = .list [.atom "accepted", st, d]) : GHolds P [] g := by
  cases hv : evalGoal P fuel [] g <;> simp [hv, judgeGround] at h
  exact decide_yes P fuel [] g hv

theorem accepted_none (P : Program) (fuel : Nat) (g : Goal) (st d : Sexp)
    (h : judgeGround (evalGoal P fuel [] g) .none = .list [.atom "accepted", st, d]) : ¬ GHolds P [] g := by
  cases hv : evalGoal P fuel [] g <;> simp [hv, judgeGround] at h
  exact decide_no P fuel [] g hv

theorem ambig_never_accepted (v : Verdict) (st d : Sexp) :
    judgeGround v .ambig ≠ .list [.atom "accepted", st, d] := by
  cases v <;> simp [judgeGround]

/-- A rejection of a decided goal is a genuine contract violation: the certified verdict
    contradicts the answer (or the answer is `ambig` although the goal is decided). -/
theorem rejected_is_violation (P : Program) (fuel : Nat) (g : Goal) (ans : GroundAnswer) (c d : Sexp)
    (h : judgeGround (evalGoal P fuel [] g) ans = .list [.atom "rejected", c, d]) :
    (GHolds P [] g ∧ ans ≠ .unique) ∨ (¬ GHolds P [] g ∧ ans ≠ .none) := by
  cases hv : evalGoal P fuel [] g <;> cases ans <;> simp [hv, judgeGround] at h
  all_goals first
    | exact Or.inl ⟨decide_yes P fuel [] g hv, by simp⟩
    | exact Or.inr ⟨decide_no P fuel [] g hv, by simp⟩

/-- Non-vacuity: `impl Foo for A` / `impl<T> Foo for V<T> where T: Foo` with an inductive cycle
    `impl Foo for B where B: Foo`: `V<A>: Foo` is certified, `B: Foo` and `V<B>: Foo` are refuted. -/
def demo : Program :=
  ⟨[⟨⟨"Foo", .cons (.app "A" .nil) .nil⟩, []⟩,
    ⟨⟨"Foo", .cons (.app "V" (.cons (.var 0) .nil)) .nil⟩, [⟨"Foo", .cons (.var 0) .nil⟩]⟩,
    ⟨⟨"Foo", .cons (.app "B" .nil) .nil⟩, [⟨"Foo", .cons (.app "B" .nil) .nil⟩]⟩], fun _ => false⟩

example : evalGoal demo 10 [] (.atom ⟨"Foo", .cons (.app "V" (.cons (.app "A" .nil) .nil)) .nil⟩) = .yes := by rfl
example : evalGoal demo 10 [] (.atom ⟨"Foo", .cons (.app "B" .nil) .nil⟩) = .no := by rfl
example : evalGoal demo 10 [] (.atom ⟨"Foo", .cons (.app "V" (.cons (.app "B" .nil) .nil)) .nil⟩) = .no := by rfl

end Chalk.C02

#print axioms Chalk.C02.decide_yes
#print axioms Chalk.C02.decide_no
#print axioms Chalk.C02.accepted_unique
#print axioms Chalk.C02.accepted_none
#print axioms Chalk.C02.ambig_never_accepted
#print axioms Chalk.C02.rejected_is_violation
