/-
  C11fp — C11 ("interrupted solving is a safe approximation") for CYCLIC ground instances of one
  polarity: the case `Props/C11.lean` covers only for acyclic instances.

  Model: `FixedPoint.lean`, unchanged.  `should_continue` is the oracle of the state (`St.oracle`,
  then `St.oracleDefault`; per call `Call.oracle` / `Call.dflt`); when it answers `false`,
  `solve_iteration` returns `ambig` and (repair F3) sets `interrupted`, and while `interrupted` is set
  no component is moved to the cache.  Proofs: `Lemmas/FixedPointSem*.lean` — the invariant of
  `Props/C05fp.lean` with a third value: `ambig` occurs only once `interrupted` is set, definite
  answers keep their justification, the cache holds final answers only.

  Class of instances: `Cyc.Hyp c inst dom`.  Configuration: the repairs F3, F7, F10 and F16 (F10: the
  nodes computed from an outdated provisional answer are rolled back when the loop stops on `ambig`;
  F16: the last pass of `Fulfill::solve` propagates `NoSolution`), `dom.length ≤ overflowDepth`,
  `2 ≤ rounds`; cache on or off; ANY oracle, ANY work budget.

    `interrupted_is_safe_approximation` — `solve_root_goal` with an arbitrary oracle (no budget) on a
        state with a correct cache returns (no panic) the fixed-point answer or `ambig` — never the
        wrong definite answer; `ambig` only if solving was interrupted; it is exact if the oracle
        never says stop; the cache it leaves is correct, stack and graph are empty;
    `history_with_interruptions_correct` — a history of arbitrary calls (any oracle, any budget) on one
        fresh solver: every outcome is the budget panic, the fixed-point answer, or `ambig` for an
        interrupted call; the cache stays correct; the next plain call returns the fixed-point answer;
    `coinductive_exact_after_interruptions`, `inductive_exact_after_interruptions` — spelled out.
-/
import ChalkModel.Lemmas.FixedPointSemQ

namespace Chalk.FixedPoint.C11fp
open Chalk.FixedPoint.Cyc

/-- interrupted solving is a safe approximation -/
theorem interrupted_is_safe_approximation (c : Bool) (inst : Instance) (dom : List Nat) (hyp : Hyp c inst dom)
    (overflowDepth rounds : Nat) (hov : dom.length ≤ overflowDepth) (hr : 2 ≤ rounds)
    (s : St) (hok : ∀ k v, InCache s k v → Corr c inst k v) (g : Nat) (hg : g ∈ dom) :
    ∃ v s', solveRootGoal inst (Cfg.current overflowDepth rounds) g s = .ok v s' ∧
      (Corr c inst g v ∨ v = .ambig) ∧ (v = .ambig → s'.interrupted = true) ∧
      (s.oracle = [] ∧ s.oracleDefault = true → Corr c inst g v) ∧
      s'.stack = [] ∧ s'.graph = [] ∧ s'.cache.isSome = s.cache.isSome ∧
      (∀ k w, InCache s' k w → Corr c inst k w) := by
  cases solveRootGoal_general (fx := true) (cfg := Cfg.current overflowDepth rounds) hyp rfl rfl (fun _ => rfl)
      (fun _ => rfl) hov hr s (Or.inl rfl) hok g hg with
  | inr h => obtain ⟨_, _, hne, _⟩ := h; exact absurd rfl hne
  | inl h =>
    obtain ⟨v, s', h1, h2, h3, h4, h5, h6, h7⟩ := h
    refine ⟨v, s', h1, h2.imp id (fun a => a.1), ?_, ?_, h3, h4, h6, h5⟩
    · intro e
      cases h2 with
      | inl hc =>
        exfalso
        cases hc with
        | inl hc => rw [e] at hc; exact top_ne_ambig c hc.1.symm
        | inr hc => rw [e] at hc; exact bot_ne_ambig c hc.1.symm
      | inr ha => exact ha.2
    · intro hq
      cases h2 with
      | inl hc => exact hc
      | inr ha =>
        have := h7 hq
        rw [ha.2] at this
        cases this

/-- histories of arbitrary calls: any oracle, any work budget -/
theorem history_with_interruptions_correct (c : Bool) (inst : Instance) (dom : List Nat) (hyp : Hyp c inst dom)
    (cfg : Cfg) (h3 : cfg.fixF3 = true) (h7 : cfg.fixF7 = true) (h10 : cfg.fixF10 = true)
    (h16 : cfg.fixF16 = true) (hov : dom.length ≤ cfg.overflowDepth) (hr : 2 ≤ cfg.rounds) (b : Bool)
    (ks : List Call) (hd : ∀ k, k ∈ ks → k.goal ∈ dom) (g : Nat) (hg : g ∈ dom) :
    (∀ (i : Nat) (k : Call), ks[i]? = some k →
      (outcomes inst cfg ks (St.fresh b))[i]? = some (.panic .budget) ∧ k.budget ≠ none ∨
      ∃ v, (outcomes inst cfg ks (St.fresh b))[i]? = some (.value v) ∧
        (Corr c inst k.goal v ∨ (v = .ambig ∧ ¬ (k.oracle = [] ∧ k.dflt = true)))) ∧
    (∀ k w, InCache (runHistory inst cfg ks (St.fresh b)) k w → Corr c inst k w) ∧
    ∃ v, solveOn inst cfg g (runHistory inst cfg ks (St.fresh b)) = .value v ∧ Corr c inst g v :=
  ⟨anyHistory_outcomes hyp h3 h7 h10 h16 hov hr ks hd _ (cacheOK_fresh c inst b),
   anyHistory_cacheOK hyp h3 h7 h10 h16 hov hr ks hd _ (cacheOK_fresh c inst b),
   anyHistory_then_plain hyp h3 h7 h10 h16 hov hr b ks hd g hg⟩

/-- coinductive instances: after any interruptions (and panics) the next plain call is the gfp answer -/
theorem coinductive_exact_after_interruptions (inst : Instance) (dom : List Nat) (hyp : Hyp true inst dom)
    (cfg : Cfg) (h3 : cfg.fixF3 = true) (h7 : cfg.fixF7 = true) (h10 : cfg.fixF10 = true)
    (h16 : cfg.fixF16 = true) (hov : dom.length ≤ cfg.overflowDepth) (hr : 2 ≤ cfg.rounds) (b : Bool)
    (ks : List Call) (hd : ∀ k, k ∈ ks → k.goal ∈ dom) (g : Nat) (hg : g ∈ dom) :
    ∃ v, solveOn inst cfg g (runHistory inst cfg ks (St.fresh b)) = .value v ∧
      (v = .unique ↔ InGfp inst g) ∧ (v = .noSolution ↔ ¬ InGfp inst g) := by
  obtain ⟨v, h1, h2⟩ := anyHistory_then_plain hyp h3 h7 h10 h16 hov hr b ks hd g hg
  refine ⟨v, h1, ?_, ?_⟩
  all_goals rcases (corr_true inst g v).mp h2 with ⟨e, ht⟩ | ⟨e, ht⟩ <;> subst e <;> simp [ht]

/-- inductive instances: … the lfp answer -/
theorem inductive_exact_after_interruptions (inst : Instance) (dom : List Nat) (hyp : Hyp false inst dom)
    (cfg : Cfg) (h3 : cfg.fixF3 = true) (h7 : cfg.fixF7 = true) (h10 : cfg.fixF10 = true)
    (h16 : cfg.fixF16 = true) (hov : dom.length ≤ cfg.overflowDepth) (hr : 2 ≤ cfg.rounds) (b : Bool)
    (ks : List Call) (hd : ∀ k, k ∈ ks → k.goal ∈ dom) (g : Nat) (hg : g ∈ dom) :
    ∃ v, solveOn inst cfg g (runHistory inst cfg ks (St.fresh b)) = .value v ∧
      (v = .unique ↔ InLfp inst g) ∧ (v = .noSolution ↔ ¬ InLfp inst g) := by
  obtain ⟨v, h1, h2⟩ := anyHistory_then_plain hyp h3 h7 h10 h16 hov hr b ks hd g hg
  refine ⟨v, h1, ?_, ?_⟩
  all_goals rcases (corr_false inst g v).mp h2 with ⟨e, ht⟩ | ⟨e, ht⟩ <;> subst e <;> simp [ht]

/-! ### non-vacuity -/

/-- `0 :- 3, 2, 1.  1 :- 0.  2 :- 1.` (`3` has no clause) -/
def retract (co : Bool) : Instance :=
  Instance.ofTable [(co, true, [[3, 2, 1]]), (co, true, [[0]]), (co, true, [[1]]), (co, true, [])]

/-- `0 :- 1.  1 :- 2 | 0.  2 :- 0, 1.` -/
def knot (co : Bool) : Instance :=
  Instance.ofTable [(co, true, [[1]]), (co, true, [[2], [0]]), (co, true, [[0, 1]])]

theorem retract_hyp (co : Bool) : Hyp co (retract co) [0, 1, 2, 3] := by
  cases co <;> exact ⟨by decide, by decide, by decide⟩

theorem knot_hyp (co : Bool) : Hyp co (knot co) [0, 1, 2] := by
  cases co <;> exact ⟨by decide, by decide, by decide⟩

/-- the oracle that says "stop" at the `k`-th call of `should_continue` -/
def stopAt (g k : Nat) : Call := { goal := g, oracle := List.replicate k true ++ [false] }

/-- `retract`, goal `0`, interrupted at the `k`-th call of `should_continue` for every `k` that a clean
    run reaches (it makes 6 calls), followed by plain solves of `0` and `2`: the interrupted call
    answers `ambig` or the exact `noSolution`, the plain calls are exact -/
example :
    (List.range 6).map (fun k => outcomes (retract true) (Cfg.current 4 2)
        [stopAt 0 k, Call.plain 0, Call.plain 2] (St.fresh true)) =
      [[.value .ambig, .value .noSolution, .value .noSolution],
       [.value .noSolution, .value .noSolution, .value .noSolution],
       [.value .noSolution, .value .noSolution, .value .noSolution],
       [.value .noSolution, .value .noSolution, .value .noSolution],
       [.value .ambig, .value .noSolution, .value .noSolution],
       [.value .noSolution, .value .noSolution, .value .noSolution]] := by decide

/-- interrupted in the second round of the loop (`k = 4`): the answer is `ambig`, nothing provisional
    was cached (only the final entry for `3`, cached before the interruption) -/
example :
    cacheDump (runHistory (retract true) (Cfg.current 4 2) [stopAt 0 4] (St.fresh true)) = [(3, .noSolution)] ∧
    cacheDump (runHistory (retract true) (Cfg.current 4 2) [stopAt 0 0] (St.fresh true)) = [] := by decide

/-- the knot, where the exact answer is `unique`: every interruption gives `ambig` or `unique` -/
example :
    ((List.range 6).all fun k =>
      (outcomes (knot true) (Cfg.current 3 2) [stopAt 0 k, Call.plain 0, Call.plain 2] (St.fresh true)).all
        fun o => o == .value .ambig || o == .value .unique) = true ∧
    outcomes (knot true) (Cfg.current 3 2) [stopAt 0 1, Call.plain 0] (St.fresh true) =
      [.value .ambig, .value .unique] := by decide

/-- the theorem, instantiated: whatever was interrupted before, goal `0` of the knot then holds -/
example (ks : List Nat) (b : Bool) :
    ∃ v, solveOn (knot true) (Cfg.current 3 2) 0
      (runHistory (knot true) (Cfg.current 3 2) (ks.map (stopAt 0)) (St.fresh b)) = .value v ∧
      (v = .unique ↔ InGfp (knot true) 0) :=
  let ⟨v, h1, h2, _⟩ := coinductive_exact_after_interruptions (knot true) [0, 1, 2] (knot_hyp true)
    (Cfg.current 3 2) rfl rfl rfl rfl (by decide) (by decide) b (ks.map (stopAt 0))
    (by
      intro k hk
      obtain ⟨n, _, rfl⟩ := List.mem_map.mp hk
      simp [stopAt]) 0 (by decide)
  ⟨v, h1, h2⟩

end Chalk.FixedPoint.C11fp

#print axioms Chalk.FixedPoint.C11fp.interrupted_is_safe_approximation
#print axioms Chalk.FixedPoint.C11fp.history_with_interruptions_correct
#print axioms Chalk.FixedPoint.C11fp.coinductive_exact_after_interruptions
#print axioms Chalk.FixedPoint.C11fp.inductive_exact_after_interruptions
#print axioms Chalk.FixedPoint.C11fp.retract_hyp
#print axioms Chalk.FixedPoint.C11fp.knot_hyp
