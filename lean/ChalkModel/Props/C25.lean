/-
  C25 — binder operations obey the substitution laws.
  Property theorems only (helper lemmas: `Lemmas/{FoldLemmas,ShiftLemmas,SubstLemmas,ShiftPure,SubstShift}.lean`).
  All statements are for every term of the model, of any size and binder depth.
-/
import ChalkModel.Lemmas.SubstShift

namespace Chalk.C25

/-- Shifting a type into `k` binders and back out returns it unchanged
    (`t.shifted_in_from(k).shifted_out_to(k) == Ok(t)`). -/
theorem shift_out_in (k : Nat) (t : Ty) :
    ∃ t', t.shiftedInFrom k = .ok t' ∧ t'.shiftedOutTo k = .ok t :=
  foldTy_shift_out_in k 0 t

/-- The same law below any number of enclosing binders already traversed (`outer_binder`), and
    for substitutions, where-clauses and `dyn` bounds. -/
theorem shift_out_in_args (k outer : Nat) (a : Args) :
    ∃ a', foldArgs (shifter k) outer a = .ok a' ∧ foldArgs (downShifter k) outer a' = .ok a :=
  foldArgs_shift_out_in k outer a

theorem shift_out_in_wc (k outer : Nat) (w : WC) :
    ∃ w', foldWC (shifter k) outer w = .ok w' ∧ foldWC (downShifter k) outer w' = .ok w :=
  foldWC_shift_out_in k outer w

theorem shift_out_in_const (k : Nat) (c : Const) :
    ∃ c', c.shiftedInFrom k = .ok c' ∧ c'.shiftedOutTo k = .ok c :=
  foldConst_shift_out_in k 0 c

theorem shift_out_in_lifetime (k : Nat) (l : Lifetime) :
    ∃ l', l.shiftedInFrom k = .ok l' ∧ l'.shiftedOutTo k = .ok l :=
  foldLifetime_shift_out_in k 0 l

/-- Substituting a binder's own variables (`Binders::identity_substitution`) for itself is the
    identity on every term whose free variables all belong to that binder with the right kinds
    (`Ty.scoped`: what `Binders<T>` guarantees for its `value`). -/
theorem subst_identity (cty : Nat → Ty) (kinds : List VarKind) (t : Ty)
    (h : t.scoped cty kinds 0 = true) :
    bindersSubstituteTy kinds t (identitySubst cty kinds) = .ok t := by
  have hl : kinds.length = (identitySubst cty kinds).length := by
    simp [identitySubst, identitySubstFrom_length]
  simp [bindersSubstituteTy, hl, Ty.subst, foldTy_subst_identity cty kinds 0 t h]

theorem subst_identity_wc (cty : Nat → Ty) (kinds : List VarKind) (w : WC)
    (h : w.scoped cty kinds 0 = true) : w.subst (identitySubst cty kinds) = .ok w :=
  foldWC_subst_identity cty kinds 0 w h

/-- Substitution commutes with shifting: shifting the result of a substitution by `k` equals
    substituting the shifted parameters into the term shifted above the substituted binder
    (including agreement of the `mismatched kinds`/`index out of bounds` panics). -/
theorem subst_shift_comm (k : Nat) (σ : List GArg) (t : Ty) :
    (t.subst σ).map (·.shift k 0) = (t.shift k 1).subst (σ.map (GArg.shift k 0)) :=
  foldTy_subst_shift k σ 0 t

theorem subst_shift_comm_wc (k : Nat) (σ : List GArg) (w : WC) :
    (w.subst σ).map (·.shift k 0) = (w.shift k 1).subst (σ.map (GArg.shift k 0)) :=
  foldWC_subst_shift k σ 0 w

/-- `Ty.shift` (used to state the commutation law) is what `Shifter` computes. -/
theorem shift_is_shifter (k c : Nat) (t : Ty) : foldTy (shifter k) c t = .ok (t.shift k c) :=
  foldTy_shifter k c t

/-- Folding with a folder that changes nothing (all `TypeFolder` defaults) returns an equal term. -/
theorem fold_id (outer : Nat) (t : Ty) : foldTy Folder.noop outer t = .ok t := foldTy_noop outer t
theorem fold_id_wc (outer : Nat) (w : WC) : foldWC Folder.noop outer w = .ok w := foldWC_noop outer w
theorem fold_id_args (outer : Nat) (a : Args) : foldArgs Folder.noop outer a = .ok a := foldArgs_noop outer a

/-- Non-vacuity of `subst_identity`'s hypothesis: a term using both variables of a two-variable
    binder under a nested fn-pointer binder is `scoped`; and the law is not true without it
    (a variable of an outer binder is shifted out). -/
example : (Ty.app (.adt 1) (.cons (.ty (.bound 0 0))
      (.cons (.ty (.function 1 0 (.cons (.ty (.bound 1 1)) (.cons (.ty (.bound 0 0)) .nil)))) .nil))).scoped
      Ty.scalar [.ty .general, .ty .general] 0 = true := by decide
example : (Ty.bound 1 0).subst (identitySubst Ty.scalar [.ty .general]) = .ok (.bound 0 0) := by rfl

end Chalk.C25

#print axioms Chalk.C25.shift_out_in
#print axioms Chalk.C25.shift_out_in_args
#print axioms Chalk.C25.shift_out_in_wc
#print axioms Chalk.C25.shift_out_in_const
#print axioms Chalk.C25.shift_out_in_lifetime
#print axioms Chalk.C25.subst_identity
#print axioms Chalk.C25.subst_identity_wc
#print axioms Chalk.C25.subst_shift_comm
#print axioms Chalk.C25.subst_shift_comm_wc
#print axioms Chalk.C25.shift_is_shifter
#print axioms Chalk.C25.fold_id
#print axioms Chalk.C25.fold_id_wc
#print axioms Chalk.C25.fold_id_args
