/-
  C24 — parsing and lowering never crash (lowering part; the LALRPOP-generated parser has no
  executable model and is covered by the differential/fuzz run only).

  Model: `ChalkModel/Resolve.lean` (name resolution + lowering of chalk-integration as a total
  function into `ok | err kind | panic site`, every unwrap / indexing / panic! of lowering.rs,
  lowering/env.rs, lowering/program_lowerer.rs being a named `panic` outcome; table in that file).

  * `lower_no_panic`, `lower_goal_no_panic`: FULL strength, for the code as repaired in /repo
    (F6 c9a5508, F6b 82a1542): for every program AST, and for every goal AST against every
    successfully lowered program, the outcome is `ok` or an error, never one of the panic sites.
  * `legacy_panics_F6*`: the same statements are FALSE of the code before the repairs (witnesses
    are the minimal inputs of known_findings.json, also replayed on the real code from corpus/C24).
  Out of the model's reach: native stack exhaustion on deeply nested input (finding F6d, open).
-/
import ChalkModel.Lemmas.ResolveLemmas

namespace Chalk.Resolve

/-- Lowering a program never panics: for every AST the result of `Program::lower` (as repaired)
    is `Ok` or one of the `RustIrError`s. -/
theorem lower_no_panic : ∀ (ast : AProgram) (s : Site), lowerProgram .fixed ast ≠ .panic s :=
  fun ast => lowerProgram_noPanic ast

/-- Lowering a goal against any successfully lowered program never panics. -/
theorem lower_goal_no_panic : ∀ (ast : AProgram) (prog : Lowered) (g : AGoal) (s : Site),
    lowerProgram .fixed ast = .ok prog → lowerGoalTop .fixed prog g ≠ .panic s :=
  fun _ _ g s h => lowerGoalTop_noPanic (lowerProgram_wf h) g s

/-- Both entry points as the harness drives them: no component of the outcome is a panic. -/
theorem lower_both_no_panic : ∀ (ast : AProgram) (g : Option AGoal) (s : Site),
    (lowerBoth .fixed ast g).1 ≠ .panic s ∧ (lowerBoth .fixed ast g).2 ≠ some (.panic s) := by
  intro ast g s
  cases h : lowerProgram .fixed ast with
  | ok prog =>
    cases g with
    | none => simp [lowerBoth, h, Outcome.void]
    | some g =>
      have := lower_goal_no_panic ast prog g s h
      simp [lowerBoth, h]
      exact this
  | err e => cases g <;> simp [lowerBoth, h, Outcome.void]
  | panic s' => exact absurd h (lower_no_panic ast s')

/-- totality, positively: every program lowers to `ok` or to an error kind -/
theorem lower_total (ast : AProgram) :
    (∃ prog, lowerProgram .fixed ast = .ok prog) ∨ (∃ e, lowerProgram .fixed ast = .err e) := by
  cases h : lowerProgram .fixed ast with
  | ok prog => exact Or.inl ⟨prog, rfl⟩
  | err e => exact Or.inr ⟨e, rfl⟩
  | panic s => exact absurd h (lower_no_panic ast s)

/-! ### The defects, on the model of the code before the repairs -/

def sS : AItem := .adt "S" [] false .nil [] none
def sFoo : AItem := .trait "Foo" [] false [] []
def sBar : AItem := .trait "Bar" [] false [] []
def sE : AItem := .foreign "E"
def applied (n : String) : ATy := .apply n (.cons (.id "S") .nil)

/-- F6, goal position: `trait Foo{} trait Bar{} struct S{}`, goal `Foo<S>: Bar` -/
def f6Program : AProgram := [sFoo, sBar, sS]
def f6Goal : AGoal := .leaf (.domain (.holds (.implemented ⟨applied "Foo", "Bar", .nil⟩)))

theorem legacy_panics_F6_goal :
    (lowerBoth .legacy f6Program (some f6Goal)).2 = some (.panic .unexpectedApplyType) := rfl

/-- F6, program position: a field of type `Foo<S>`; and an extern type `E<S>` -/
theorem legacy_panics_F6_field :
    (lowerBoth .legacy [sFoo, sS, .adt "T" [] false (.cons (applied "Foo") .nil) [] none] none).1
      = .panic .unexpectedApplyType := rfl

theorem legacy_panics_F6_foreign :
    (lowerBoth .legacy [sE, sS, .adt "T" [] false (.cons (applied "E") .nil) [] none] none).1
      = .panic .unexpectedApplyType := rfl

/-- F6b: `trait Foo{} struct S{} impl Foo for S { type X = S; }` -/
def f6bProgram : AProgram := [sFoo, sS, .impl [] true ⟨.id "S", "Foo", .nil⟩ [] [⟨"X", [], .id "S"⟩]]

theorem legacy_panics_F6b : (lowerBoth .legacy f6bProgram none).1 = .panic .implAssocLookupIndex := rfl

/-- so the full-strength statement is false of the unrepaired code -/
theorem legacy_lower_no_panic_false : ¬ ∀ (ast : AProgram) (s : Site), lowerProgram .legacy ast ≠ .panic s := by
  intro h
  have : lowerProgram .legacy f6bProgram = .panic .implAssocLookupIndex := rfl
  exact h _ _ this

/-! ### The repaired code on the same inputs (errors, as the real code now answers) -/

example : lowerBoth .fixed f6Program (some f6Goal) = (.ok (), some (.err .NotStruct)) := rfl
example : (lowerBoth .fixed [sE, sS, .adt "T" [] false (.cons (applied "E") .nil) [] none] none).1
    = .err .IncorrectNumberOfTypeParameters := rfl
example : (lowerBoth .fixed f6bProgram none).1 = .err .MissingAssociatedType := rfl

/-- non-vacuity of `lower_goal_no_panic`'s hypothesis: a program with every sort of item lowers,
    and a goal that uses an associated type lowers against it -/
def sampleProgram : AProgram :=
  [ .adt "V" [⟨.ty, "T"⟩] false (.cons (.id "T") .nil) [] none,
    .trait "It" [] false [] [⟨"Item", [], .nil, []⟩],
    .impl [⟨.ty, "T"⟩] true ⟨.apply "V" (.cons (.id "T") .nil), "It", .nil⟩ [] [⟨"Item", [], .id "T"⟩] ]

def sampleGoal : AGoal :=
  .quant [⟨.ty, "X"⟩]
    (.leaf (.domain (.normalize ⟨⟨.apply "V" (.cons (.id "X") .nil), "It", .nil⟩, "Item", .nil⟩ (.id "X"))))

example : lowerBoth .fixed sampleProgram (some sampleGoal) = (.ok (), some (.ok ())) := rfl

end Chalk.Resolve

#print axioms Chalk.Resolve.lower_no_panic
#print axioms Chalk.Resolve.lower_goal_no_panic
#print axioms Chalk.Resolve.lower_both_no_panic
#print axioms Chalk.Resolve.lower_total
#print axioms Chalk.Resolve.legacy_panics_F6_goal
#print axioms Chalk.Resolve.legacy_panics_F6_field
#print axioms Chalk.Resolve.legacy_panics_F6_foreign
#print axioms Chalk.Resolve.legacy_panics_F6b
#print axioms Chalk.Resolve.legacy_lower_no_panic_false
