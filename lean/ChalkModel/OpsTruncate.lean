/- Driver ops for the model of `chalk_solve::solve::truncate::needs_truncation` (C09/C02 size limit):
   decode a value, run the STATEFUL visitor model (`Truncate.visitValue` from `St.init`), print
   `visitor.max_size` and the answer of `needs_truncation`.  No model logic here.

   (ty-size   <max> <ty>)            value = a type
   (garg-size <max> <generic arg>)   value = a generic argument
   (args-size <max> (<garg>*))       value = a substitution
   (tys-size  <max> (<ty>*))         value = a `Vec<Ty>`
   (wc-size   <max> <where clause>)  value = a where clause
   (goal-size <max> <domain goal>)   value = a domain goal
   → (ok <max_size reached> <true|false>)                                                    -/
import ChalkModel.Wire
import ChalkModel.Truncate

namespace Chalk
open Sexp

def truncAnswer (max : Sexp) (v : Truncate.Value) : Option Sexp := do
  let max ← max.nat?
  some (.list [.atom "ok", sNat (Truncate.maxSizeOf v),
    .atom (if Truncate.needsTruncation max v then "true" else "false")])

def opsTruncate : Sexp → Option Sexp
  | .list [.atom "ty-size", max, t] => do truncAnswer max (.ty (← Ty.ofSexp? t))
  | .list [.atom "garg-size", max, a] => do truncAnswer max (.garg (← GArg.ofSexp? a))
  | .list [.atom "args-size", max, a] => do truncAnswer max (.args (← Args.ofSexp? a))
  | .list [.atom "tys-size", max, .list ts] => do truncAnswer max (.tys (← ts.mapM Ty.ofSexp?))
  | .list [.atom "wc-size", max, w] => do truncAnswer max (.wc (← WC.ofSexp? w))
  | .list [.atom "goal-size", max, g] => do truncAnswer max (.goal (← DomainGoal.ofSexp? g))
  | _ => none

end Chalk
