/-
  Model of `TyKind::compute_flags`, `Lifetime::compute_flags`, `GenericArg::compute_flags`,
  `AliasTy::compute_flags`, `Substitution::compute_flags` (`chalk-ir/src/lib.rs`).

  A flag set is modelled as the list of flags OR-ed together (`|` = `++`); `toBits` is the `u16`.
  `TyData.flags` of a subterm is `computeFlags` of that subterm (`Ty::new` stores
  `data.compute_flags`), so the recursion is the cached-flags lookup of the Rust code.
-/
import ChalkModel.Syntax

namespace Chalk

inductive Flag where
  | hasTyInfer | hasReInfer | hasCtInfer | hasTyPlaceholder | hasRePlaceholder | hasCtPlaceholder
  | hasFreeLocalRegions | hasTyProjection | hasTyOpaque | hasCtProjection | hasError | hasReError
  | hasFreeRegions | hasReLateBound | hasReErased | stillFurtherSpecializable
  deriving DecidableEq, Repr

def Flag.bit : Flag → Nat
  | .hasTyInfer => 0 | .hasReInfer => 1 | .hasCtInfer => 2 | .hasTyPlaceholder => 3
  | .hasRePlaceholder => 4 | .hasCtPlaceholder => 5 | .hasFreeLocalRegions => 6
  | .hasTyProjection => 7 | .hasTyOpaque => 8 | .hasCtProjection => 9 | .hasError => 10
  | .hasReError => 11 | .hasFreeRegions => 12 | .hasReLateBound => 13 | .hasReErased => 14
  | .stillFurtherSpecializable => 15

abbrev Flags := List Flag

def Flags.toBits (fs : Flags) : Nat := fs.foldr (fun f acc => (1 <<< f.bit) ||| acc) 0

def Lifetime.computeFlags : Lifetime → Flags
  | .infer _ => [.hasReInfer, .hasFreeLocalRegions, .hasFreeRegions]
  | .placeholder _ _ => [.hasRePlaceholder, .hasFreeLocalRegions, .hasFreeRegions]
  | .static => [.hasFreeRegions]
  | .bound _ _ => [.hasReLateBound]
  | .erased => [.hasReErased]
  | .error => [.hasReError]

/-- the `match const_data.value` of both the `Array` arm and `GenericArg::compute_flags` -/
def ConstValue.computeFlags : ConstValue → Flags
  | .bound _ _ => []
  | .concrete _ => []
  | .infer _ => [.hasCtInfer, .stillFurtherSpecializable]
  | .placeholder _ _ => [.hasCtPlaceholder, .stillFurtherSpecializable]

mutual
  def Ty.computeFlags : Ty → Flags
    | .app _ args => args.computeFlags
    | .scalar _ => []
    | .str => []
    | .never => []
    | .foreign _ => []
    | .error => [.hasError]
    | .slice t => t.computeFlags
    | .raw _ t => t.computeFlags
    | .ref _ l t => l.computeFlags ++ t.computeFlags
    | .array t c => t.computeFlags ++ c.computeFlags
    | .placeholder _ _ => [.hasTyPlaceholder]
    | .dyn _ bounds l => l.computeFlags ++ bounds.computeFlags
    | .proj _ args => .hasTyProjection :: args.computeFlags
    | .opaque _ args => .hasTyOpaque :: args.computeFlags
    | .bound _ _ => []
    | .infer _ _ => [.hasTyInfer]
    | .function _ _ args => args.computeFlags
  /-- `const_data.ty.flags | match const_data.value {..}` -/
  def Const.computeFlags : Const → Flags
    | .mk ty v => ty.computeFlags ++ v.computeFlags
  def GArg.computeFlags : GArg → Flags
    | .ty t => t.computeFlags
    | .lt l => l.computeFlags
    | .ct c => c.computeFlags
  def Args.computeFlags : Args → Flags
    | .nil => []
    | .cons a as => a.computeFlags ++ as.computeFlags
  def WC.computeFlags : WC → Flags
    | .implemented _ args => args.computeFlags
    | .aliasEqProj _ args ty => (.hasTyProjection :: args.computeFlags) ++ ty.computeFlags
    | .aliasEqOpaque _ args ty => (.hasTyOpaque :: args.computeFlags) ++ ty.computeFlags
    | .ltOutlives a b => a.computeFlags ++ b.computeFlags
    | .tyOutlives t l => t.computeFlags ++ l.computeFlags
  def QWC.computeFlags : QWC → Flags
    | .mk _ wc => wc.computeFlags
  def QWCs.computeFlags : QWCs → Flags
    | .nil => []
    | .cons q qs => q.computeFlags ++ qs.computeFlags
end

/-! ### Specification: which leaves occur (a traversal that does not mention flags) -/

inductive Leaf where
  | tyInfer | ltInfer | ctInfer | tyPlaceholder | ltPlaceholder | ctPlaceholder
  | projection | opaqueAlias | tyError | ltError | ltStatic | ltBound | ltErased
  deriving DecidableEq, Repr

def Lifetime.leaf : Lifetime → Leaf
  | .infer _ => .ltInfer | .placeholder _ _ => .ltPlaceholder | .static => .ltStatic
  | .bound _ _ => .ltBound | .erased => .ltErased | .error => .ltError

def ConstValue.leaves : ConstValue → List Leaf
  | .infer _ => [.ctInfer] | .placeholder _ _ => [.ctPlaceholder] | _ => []

mutual
  def Ty.leaves : Ty → List Leaf
    | .app _ args => args.leaves
    | .scalar _ => [] | .str => [] | .never => [] | .foreign _ => []
    | .error => [.tyError]
    | .slice t => t.leaves
    | .raw _ t => t.leaves
    | .ref _ l t => l.leaf :: t.leaves
    | .array t c => t.leaves ++ c.leaves
    | .placeholder _ _ => [.tyPlaceholder]
    | .dyn _ bounds l => l.leaf :: bounds.leaves
    | .proj _ args => .projection :: args.leaves
    | .opaque _ args => .opaqueAlias :: args.leaves
    | .bound _ _ => []
    | .infer _ _ => [.tyInfer]
    | .function _ _ args => args.leaves
  def Const.leaves : Const → List Leaf
    | .mk ty v => ty.leaves ++ v.leaves
  def GArg.leaves : GArg → List Leaf
    | .ty t => t.leaves
    | .lt l => [l.leaf]
    | .ct c => c.leaves
  def Args.leaves : Args → List Leaf
    | .nil => []
    | .cons a as => a.leaves ++ as.leaves
  def WC.leaves : WC → List Leaf
    | .implemented _ args => args.leaves
    | .aliasEqProj _ args ty => (.projection :: args.leaves) ++ ty.leaves
    | .aliasEqOpaque _ args ty => (.opaqueAlias :: args.leaves) ++ ty.leaves
    | .ltOutlives a b => [a.leaf, b.leaf]
    | .tyOutlives t l => t.leaves ++ [l.leaf]
  def QWC.leaves : QWC → List Leaf
    | .mk _ wc => wc.leaves
  def QWCs.leaves : QWCs → List Leaf
    | .nil => []
    | .cons q qs => q.leaves ++ qs.leaves
end

/-- The table "flag ↔ kinds of leaf it reports" (what the doc comments of `TypeFlags` say). -/
def Flag.reports : Flag → Leaf → Bool
  | .hasTyInfer, .tyInfer => true
  | .hasReInfer, .ltInfer => true
  | .hasCtInfer, .ctInfer => true
  | .hasTyPlaceholder, .tyPlaceholder => true
  | .hasRePlaceholder, .ltPlaceholder => true
  | .hasCtPlaceholder, .ctPlaceholder => true
  | .hasFreeLocalRegions, .ltInfer => true
  | .hasFreeLocalRegions, .ltPlaceholder => true
  | .hasTyProjection, .projection => true
  | .hasTyOpaque, .opaqueAlias => true
  | .hasError, .tyError => true
  | .hasReError, .ltError => true
  | .hasFreeRegions, .ltInfer => true
  | .hasFreeRegions, .ltPlaceholder => true
  | .hasFreeRegions, .ltStatic => true
  | .hasReLateBound, .ltBound => true
  | .hasReErased, .ltErased => true
  | _, _ => false

end Chalk
