/-
  C08 — built-in traits (Sized, Copy, Clone, Tuple, FnPtr).

  Types are first-order terms (`Sem.Tm`): a constructor symbol applied to type arguments; what
  kind of type a symbol stands for is given by the program's table `ctor` (the harness fills it
  from chalk's lowered `TyKind`s).  Lifetimes, array lengths, fn-pointer ABI/safety are not part of
  the term: none of the modelled clauses looks at them.

  * SPEC `BuiltinHolds`: an inductive predicate with one rule per sentence of the property / the
    Rust reference ("a tuple is Sized iff its last element is", "arrays are Copy iff their element
    is", "slices, str and trait objects are never Sized", "a struct is Sized iff it has no fields
    or its last field is", …) plus one rule for the program's explicit impls.  Being inductive it
    is the least fixed point, so recursive impls and recursive structs need no special care.
  * CLAUSE MODEL `ClauseInst P g body`: `body` is the instantiated condition list of a program
    clause chalk generates whose instantiated head is `g` — arm by arm after
      chalk-solve/src/clauses/builtin_traits.rs   `add_builtin_program_clauses`, `last_field_of_struct`,
                                                  `needs_impl_for_tys`
      chalk-solve/src/clauses/builtin_traits/{sized,copy,clone,tuple}.rs
      chalk-solve/src/clauses/program_clauses.rs  `ImplDatum::to_program_clauses`
    `Holds` is its least fixed point.
  * the executable side: `clausesFor` computes the matching clause instances of a ground goal
    (one-sided matching of impl headers), `decideGoal` = `GroundRes.solve` over it.
-/
import ChalkModel.GroundRes

namespace Chalk.Builtin
open Chalk.Sem

/-- the well-known traits of the property -/
inductive Trait where
  | sized | copy | clone | tuple | fnPtr
  deriving DecidableEq, Repr

/-- what a type-constructor symbol stands for (`TyKind`) -/
inductive Ctor where
  | adt (id : Nat)
  | scalar
  | tuple
  /-- `[T; N]`: first argument = element type -/
  | array
  | slice
  | ref
  | raw
  /-- `fn(..) -> ..` (`TyKind::Function`) -/
  | fnPtr
  | str
  | never
  | dyn
  | fnDef
  /-- placeholders and everything the built-in rules say nothing about -/
  | other
  deriving DecidableEq, Repr

/-- `AdtDatum`: kind and fields (parameters of the ADT are `var 0`, `var 1`, …) -/
inductive AdtDecl where
  | struct (fields : List Tm)
  | enum (variants : List (List Tm))
  | union (fields : List Tm)
  deriving Repr

/-- `impl<..> Trait for self where wcs` -/
structure Impl where
  trait : Trait
  self : Tm
  wcs : List (Trait × Tm)
  deriving Repr

structure Program where
  ctor : String → Ctor
  adt : Nat → AdtDecl
  impls : List Impl

structure Goal where
  tr : Trait
  ty : Tm
  deriving DecidableEq, Repr

def Tms.toList : Tms → List Tm
  | .nil => []
  | .cons t ts => t :: Tms.toList ts

/-- substitution of the ADT's parameters by the type arguments -/
def substArgs (args : Tms) (t : Tm) : Tm := t.inst (fun i => (Tms.toList args).getD i (.var i))

/-! ## The specification -/

/-- `tr` is `Copy` or `Clone` (the structural rules are the same for both) -/
def Trait.copyLike : Trait → Bool
  | .copy => true
  | .clone => true
  | _ => false

inductive BuiltinHolds (P : Program) : Trait → Tm → Prop where
  -- Sized: scalars, references, raw pointers, arrays, fn pointers, fn items and `!` always
  | sized_scalar {c args} : P.ctor c = .scalar → BuiltinHolds P .sized (.app c args)
  | sized_ref {c args} : P.ctor c = .ref → BuiltinHolds P .sized (.app c args)
  | sized_raw {c args} : P.ctor c = .raw → BuiltinHolds P .sized (.app c args)
  | sized_array {c args} : P.ctor c = .array → BuiltinHolds P .sized (.app c args)
  | sized_fnPtr {c args} : P.ctor c = .fnPtr → BuiltinHolds P .sized (.app c args)
  | sized_fnDef {c args} : P.ctor c = .fnDef → BuiltinHolds P .sized (.app c args)
  | sized_never {c args} : P.ctor c = .never → BuiltinHolds P .sized (.app c args)
  -- a tuple is Sized iff it is empty or its last element is
  | sized_unit {c} : P.ctor c = .tuple → BuiltinHolds P .sized (.app c .nil)
  | sized_tuple {c args last} : P.ctor c = .tuple → (Tms.toList args).getLast? = some last →
      BuiltinHolds P .sized last → BuiltinHolds P .sized (.app c args)
  -- a struct is Sized iff it has no fields or its last field is; enums and unions always
  | sized_struct_empty {c args id} : P.ctor c = .adt id → P.adt id = .struct [] →
      BuiltinHolds P .sized (.app c args)
  | sized_struct {c args id fields last} : P.ctor c = .adt id → P.adt id = .struct fields →
      fields.getLast? = some last → BuiltinHolds P .sized (substArgs args last) →
      BuiltinHolds P .sized (.app c args)
  | sized_enum {c args id vs} : P.ctor c = .adt id → P.adt id = .enum vs →
      BuiltinHolds P .sized (.app c args)
  | sized_union {c args id fs} : P.ctor c = .adt id → P.adt id = .union fs →
      BuiltinHolds P .sized (.app c args)
  -- never Sized by a built-in rule: `str`, slices, `dyn Trait` (no constructor here)
  -- Copy / Clone: tuples and arrays exactly when their elements are; fn pointers and fn items
  -- always; everything else (scalars, references, raw pointers, `!`, structs, …) only through
  -- the program's impls
  | copy_tuple {tr c args} : tr.copyLike = true → P.ctor c = .tuple →
      (∀ t ∈ Tms.toList args, BuiltinHolds P tr t) → BuiltinHolds P tr (.app c args)
  | copy_array {tr c elem rest} : tr.copyLike = true → P.ctor c = .array →
      BuiltinHolds P tr elem → BuiltinHolds P tr (.app c (.cons elem rest))
  | copy_fnPtr {tr c args} : tr.copyLike = true → P.ctor c = .fnPtr → BuiltinHolds P tr (.app c args)
  | copy_fnDef {tr c args} : tr.copyLike = true → P.ctor c = .fnDef → BuiltinHolds P tr (.app c args)
  -- Tuple: exactly the tuples; FnPtr: exactly the fn pointers
  | tuple_tuple {c args} : P.ctor c = .tuple → BuiltinHolds P .tuple (.app c args)
  | fnPtr_fnPtr {c args} : P.ctor c = .fnPtr → BuiltinHolds P .fnPtr (.app c args)
  -- the program's explicit impls: some instance of the impl header is the type and the
  -- instantiated where-clauses hold
  | explicit {im : Impl} {σ : Nat → Tm} {ty : Tm} : im ∈ P.impls → im.self.inst σ = ty →
      (∀ wc ∈ im.wcs, BuiltinHolds P wc.1 (wc.2.inst σ)) → BuiltinHolds P im.trait ty

/-! ## The clause model -/

/-- `last_field_of_struct`: `None` unless the ADT is a struct with at least one field -/
def lastFieldOfStruct (d : AdtDecl) (args : Tms) : Option Tm :=
  match d with
  | .struct fields => (fields.getLast?).map (substArgs args)
  | .enum _ => none
  | .union _ => none

/-- `needs_impl_for_tys`: `Implemented(T0: Trait) :- Implemented(U0: Trait), .., Implemented(Un: Trait)` -/
def needsImplForTys (tr : Trait) (tys : List Tm) : List Goal := tys.map (Goal.mk tr)

/-- `add_sized_program_clauses`, by `TyKind` of the self type; the result lists the condition
    lists of the clauses pushed (`[[]]` = one fact, `[]` = nothing) -/
def sizedClauses (P : Program) (k : Ctor) (args : Tms) : List (List Goal) :=
  match k with
  -- `push_adt_sized_conditions`
  | .adt id => [needsImplForTys .sized (lastFieldOfStruct (P.adt id) args).toList]
  -- `push_tuple_sized_conditions`
  | .tuple =>
      match (Tms.toList args).getLast? with
      | none => [[]]
      | some last => [needsImplForTys .sized [last]]
  | .array | .never | .fnDef | .scalar | .raw | .ref => [[]]
  | .slice | .str => []
  | .fnPtr => [[]]
  -- "These would be handled elsewhere": Placeholder, Dyn, Alias
  | .dyn | .other => []

/-- `add_copy_program_clauses` (also used for Clone, with Clone in the conditions) -/
def copyClauses (tr : Trait) (k : Ctor) (args : Tms) : List (List Goal) :=
  match k with
  -- `push_tuple_copy_conditions`
  | .tuple =>
      match args with
      | .nil => [[]]
      | _ => [needsImplForTys tr (Tms.toList args)]
  | .array =>
      match args with
      | .cons elem _ => [needsImplForTys tr [elem]]
      | .nil => []
  | .fnDef => [[]]
  -- "these impls are in libcore"
  | .ref | .raw | .scalar | .never | .str => []
  | .adt _ | .slice => []
  | .fnPtr => [[]]
  | .dyn | .other => []

/-- `add_builtin_program_clauses`, dispatch on the well-known trait -/
def builtinClauses (P : Program) (tr : Trait) (k : Ctor) (args : Tms) : List (List Goal) :=
  match tr with
  | .sized => sizedClauses P k args
  | .copy => copyClauses .copy k args
  | .clone => copyClauses .clone k args
  -- `add_tuple_program_clauses`
  | .tuple => match k with | .tuple => [[]] | _ => []
  -- `WellKnownTrait::FnPtr => if let TyKind::Function(_) = .. { push_fact }`
  | .fnPtr => match k with | .fnPtr => [[]] | _ => []

/-- the clause of an impl, instantiated -/
def implBody (im : Impl) (σ : Nat → Tm) : List Goal := im.wcs.map (fun wc => ⟨wc.1, wc.2.inst σ⟩)

/-- `body` is the instantiated condition list of a generated clause with instantiated head `g` -/
inductive ClauseInst (P : Program) : Goal → List Goal → Prop where
  | builtin {tr c args body} : body ∈ builtinClauses P tr (P.ctor c) args →
      ClauseInst P ⟨tr, .app c args⟩ body
  | impl {im : Impl} {σ : Nat → Tm} : im ∈ P.impls →
      ClauseInst P ⟨im.trait, im.self.inst σ⟩ (implBody im σ)

/-- the meaning of the clause set: least fixed point -/
inductive Holds (P : Program) : Goal → Prop where
  | step {g : Goal} {body : List Goal} : ClauseInst P g body → (∀ b, b ∈ body → Holds P b) → Holds P g

/-! ## The executable side -/

/-- clause instances of the impls whose header matches the ground type -/
def implClauses (P : Program) (tr : Trait) (ty : Tm) : List (List Goal) :=
  P.impls.filterMap fun im =>
    if im.trait = tr then
      match matchTm im.self ty [] with
      | some σ => some (implBody im σ.toFun)
      | none => none
    else none

/-- all clause instances with head `g`.  (Closed goals are `app` terms; a bare variable — chalk
    would flounder on it — is treated like an opaque type: no built-in clause.) -/
def clausesFor (P : Program) (g : Goal) : List (List Goal) :=
  (match g.ty with
   | .app c args => builtinClauses P g.tr (P.ctor c) args
   | .var _ => []) ++ implClauses P g.tr g.ty

/-- resolution with ancestor check and fuel -/
def decideGoal (P : Program) (fuel : Nat) (g : Goal) : Verdict := GroundRes.solve (clausesFor P) fuel [] g

/-! hypotheses under which `clausesFor` is complete -/

mutual
  def Tm.vars : Tm → List Nat
    | .var i => [i]
    | .app _ args => Tms.vars args
  def Tms.vars : Tms → List Nat
    | .nil => []
    | .cons t ts => Tm.vars t ++ Tms.vars ts
end

/-- every type parameter of an impl occurs in its header (rustc's E0207); otherwise the clause
    has an existential variable in its conditions -/
def Impl.paramsInHeader (im : Impl) : Bool :=
  im.wcs.all fun wc => (Tm.vars wc.2).all fun i => (Tm.vars im.self).contains i

def Program.implParamsInHeader (P : Program) : Bool := P.impls.all Impl.paramsInHeader

mutual
  def Tm.ground : Tm → Bool
    | .var _ => false
    | .app _ args => Tms.ground args
  def Tms.ground : Tms → Bool
    | .nil => true
    | .cons t ts => Tm.ground t && Tms.ground ts
end

end Chalk.Builtin
