/- Wire encodings for canonical substitutions / solutions and the driver ops for C17. -/
import ChalkModel.Wire
import ChalkModel.Aggregate
import ChalkModel.WfAnswer
import ChalkModel.MakeSolution

namespace Chalk
open Sexp

def binderToSexp : VarKind × Nat → Sexp
  | (k, u) => .list [k.toSexp, sNat u]
def binderOfSexp? : Sexp → Option (VarKind × Nat)
  | .list [k, u] => do some ((← VarKind.ofSexp? k), (← u.nat?))
  | _ => none
def bindersToSexp (bs : List (VarKind × Nat)) : Sexp := .list (bs.map binderToSexp)
def bindersOfSexp? : Sexp → Option (List (VarKind × Nat))
  | .list xs => xs.mapM binderOfSexp?
  | _ => none

def canonArgsToSexp (c : Canon Args) : Sexp := .list [.atom "canon", bindersToSexp c.binders, c.value.toSexp]
def canonArgsOfSexp? : Sexp → Option (Canon Args)
  | .list [.atom "canon", bs, v] => do some ⟨← bindersOfSexp? bs, ← Args.ofSexp? v⟩
  | _ => none

def Constraint.toSexp : Constraint → Sexp
  | .ltOutlives a b => .list [.atom "c-lt", a.toSexp, b.toSexp]
  | .tyOutlives t l => .list [.atom "c-ty", t.toSexp, l.toSexp]
def Constraint.ofSexp? : Sexp → Option Constraint
  | .list [.atom "c-lt", a, b] => do some (.ltOutlives (← Lifetime.ofSexp? a) (← Lifetime.ofSexp? b))
  | .list [.atom "c-ty", t, l] => do some (.tyOutlives (← Ty.ofSexp? t) (← Lifetime.ofSexp? l))
  | _ => none

def Guidance.toSexp : Guidance → Sexp
  | .definite c => .list [.atom "definite", canonArgsToSexp c]
  | .suggested c => .list [.atom "suggested", canonArgsToSexp c]
  | .unknown => .atom "unknown"
def Guidance.ofSexp? : Sexp → Option Guidance
  | .list [.atom "definite", c] => do some (.definite (← canonArgsOfSexp? c))
  | .list [.atom "suggested", c] => do some (.suggested (← canonArgsOfSexp? c))
  | .atom "unknown" => some .unknown
  | _ => none

def Solution.toSexp : Solution → Sexp
  | .unique bs s cs => .list [.atom "unique", bindersToSexp bs, s.toSexp, .list (cs.map Constraint.toSexp)]
  | .ambig g => .list [.atom "ambig", g.toSexp]
def Solution.ofSexp? : Sexp → Option Solution
  | .list [.atom "unique", bs, s, .list cs] => do
      some (.unique (← bindersOfSexp? bs) (← Args.ofSexp? s) (← cs.mapM Constraint.ofSexp?))
  | .list [.atom "ambig", g] => do some (.ambig (← Guidance.ofSexp? g))
  | _ => none

def natListOfSexp? : Sexp → Option (List Nat)
  | .list xs => xs.mapM Sexp.nat?
  | _ => none

def opsAggregate : Sexp → Option Sexp
  | .list [.atom "wf-answer", ks, nu, ans] => do
      let ok := wfAnswer (← kindsOfSexp? ks) (← nu.nat?) (← canonArgsOfSexp? ans)
      some (if ok then .list [.atom "accepted", .atom "wf-answer"]
            else .list [.atom "rejected", .atom "ill_formed_answer", .list []])
  | .list [.atom "may-invalidate", n, c] => do
      some (resBoolToSexp (mayInvalidate (← Args.ofSexp? n) (← Args.ofSexp? c)))
  | .list [.atom "merge", us, g, a] => do
      some (resToSexp canonArgsToSexp (mergeIntoGuidance (← natListOfSexp? us) (← Args.ofSexp? g) (← Args.ofSexp? a)))
  | .list [.atom "make-solution", us, .list answers] => do
      -- answers: (binders subst (constraints) ambiguous)
      let as ← answers.mapM fun
        | .list [bs, s, .list cs, amb] => do
            some (⟨← bindersOfSexp? bs, ← Args.ofSexp? s, ← cs.mapM Constraint.ofSexp?, ← bool? amb⟩ : CAnswer)
        | _ => none
      some (resToSexp (fun o => match o with
        | none => .atom "none"
        | some sol => sol.toSexp) (makeSolution (← natListOfSexp? us) as))
  | .list [.atom "is-trivial", s] => do
      some (.list [.atom "ok", sBool (isTrivial (← Args.ofSexp? s))])
  | .list [.atom "combine", a, b] => do
      some (.list [.atom "ok", ((← Solution.ofSexp? a).combine (← Solution.ofSexp? b)).toSexp])
  | .list [.atom "with-priorities", g, a, pa, b, pb] => do
      let r := withPriorities (← DomainGoal.ofSexp? g) (← Solution.ofSexp? a) (← bool? pa) (← Solution.ofSexp? b) (← bool? pb)
      some (resToSexp (fun (s, p) => .list [s.toSexp, sBool p]) r)
  | _ => none

end Chalk
