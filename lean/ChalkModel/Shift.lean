/-
  Model of `chalk-ir/src/fold/shift.rs` (`Shifter`, `DownShifter`, `Shift`) and of
  `chalk-ir/src/fold/subst.rs` (`Subst::apply`), `Binders::substitute`,
  `Binders::identity_substitution` from `chalk-ir/src/lib.rs`.
-/
import ChalkModel.Fold

namespace Chalk

/-- `Shifter { source_binder }`: `adjust` = `shifted_in_from(source).shifted_in_from(outer)`. -/
def shifter (source : Nat) : Folder where
  freeVarTy := some fun db idx outer => .ok (.bound (db + source + outer) idx)
  freeVarLt := some fun db idx outer => .ok (.bound (db + source + outer) idx)
  freeVarConst := some fun ty db idx outer => .ok (.mk ty (.bound (db + source + outer) idx))

/-- `DownShifter { target_binder }`: `shifted_out_to(target)` then `shifted_in_from(outer)`. -/
def downShifter (target : Nat) : Folder where
  freeVarTy := some fun db idx outer =>
    if target ≤ db then .ok (.bound (db - target + outer) idx) else .error .noSolution
  freeVarLt := some fun db idx outer =>
    if target ≤ db then .ok (.bound (db - target + outer) idx) else .error .noSolution
  freeVarConst := some fun ty db idx outer =>
    if target ≤ db then .ok (.mk ty (.bound (db - target + outer) idx)) else .error .noSolution

/-- `t.shifted_in_from(interner, k)` — the Rust code `unwrap`s; the model keeps the `Res`. -/
def Ty.shiftedInFrom (t : Ty) (k : Nat) : Res Ty := foldTy (shifter k) 0 t
def Ty.shiftedOutTo (t : Ty) (k : Nat) : Res Ty := foldTy (downShifter k) 0 t
def Lifetime.shiftedInFrom (l : Lifetime) (k : Nat) : Res Lifetime := foldLifetime (shifter k) 0 l
def Lifetime.shiftedOutTo (l : Lifetime) (k : Nat) : Res Lifetime := foldLifetime (downShifter k) 0 l
def Const.shiftedInFrom (c : Const) (k : Nat) : Res Const := foldConst (shifter k) 0 c
def Const.shiftedOutTo (c : Const) (k : Nat) : Res Const := foldConst (downShifter k) 0 c
def GArg.shiftedInFrom (a : GArg) (k : Nat) : Res GArg := foldGArg (shifter k) 0 a
def GArg.shiftedOutTo (a : GArg) (k : Nat) : Res GArg := foldGArg (downShifter k) 0 a
def Args.shiftedInFrom (a : Args) (k : Nat) : Res Args := foldArgs (shifter k) 0 a
def Args.shiftedOutTo (a : Args) (k : Nat) : Res Args := foldArgs (downShifter k) 0 a

/-- `Subst { parameters }` (`fold/subst.rs`). -/
def substFolder (params : List GArg) : Folder where
  freeVarTy := some fun db idx outer =>
    if db = 0 then
      match params[idx]? with
      | some (.ty t) => foldTy (shifter outer) 0 t
      | some _ => .error (.panic "mismatched kinds in substitution")
      | none => .error (.panic "index out of bounds")
    else .ok (.bound (db - 1 + outer) idx)
  freeVarLt := some fun db idx outer =>
    if db = 0 then
      match params[idx]? with
      | some (.lt l) => foldLifetime (shifter outer) 0 l
      | some _ => .error (.panic "mismatched kinds in substitution")
      | none => .error (.panic "index out of bounds")
    else .ok (.bound (db - 1 + outer) idx)
  freeVarConst := some fun ty db idx outer =>
    if db = 0 then
      match params[idx]? with
      | some (.ct c) => foldConst (shifter outer) 0 c
      | some _ => .error (.panic "mismatched kinds in substitution")
      | none => .error (.panic "index out of bounds")
    else .ok (.mk ty (.bound (db - 1 + outer) idx))

/-- `SubstFolder` of `chalk-ir/src/lib.rs` (`Substitution::apply` / `Substitute::apply`): asserts that
    the variable belongs to the innermost binder, indexes the parameters, `assert_*_ref` unwraps. -/
def applyFolder (params : List GArg) : Folder where
  freeVarTy := some fun db idx outer =>
    if db = 0 then
      match params[idx]? with
      | some (.ty t) => foldTy (shifter outer) 0 t
      | some _ => .error (.panic "called Option::unwrap on a None value")
      | none => .error (.panic "index out of bounds")
    else .error (.panic "assert_eq debruijn INNERMOST")
  freeVarLt := some fun db idx outer =>
    if db = 0 then
      match params[idx]? with
      | some (.lt l) => foldLifetime (shifter outer) 0 l
      | some _ => .error (.panic "called Option::unwrap on a None value")
      | none => .error (.panic "index out of bounds")
    else .error (.panic "assert_eq debruijn INNERMOST")
  freeVarConst := some fun _ db idx outer =>
    if db = 0 then
      match params[idx]? with
      | some (.ct c) => foldConst (shifter outer) 0 c
      | some _ => .error (.panic "called Option::unwrap on a None value")
      | none => .error (.panic "index out of bounds")
    else .error (.panic "assert_eq debruijn INNERMOST")

/-- `Subst::apply(interner, parameters, value)` -/
def Ty.subst (params : List GArg) (t : Ty) : Res Ty := foldTy (substFolder params) 0 t
def Lifetime.subst (params : List GArg) (l : Lifetime) : Res Lifetime := foldLifetime (substFolder params) 0 l
def Const.subst (params : List GArg) (c : Const) : Res Const := foldConst (substFolder params) 0 c
def GArg.subst (params : List GArg) (a : GArg) : Res GArg := foldGArg (substFolder params) 0 a
def Args.subst (params : List GArg) (a : Args) : Res Args := foldArgs (substFolder params) 0 a
def WC.subst (params : List GArg) (w : WC) : Res WC := foldWC (substFolder params) 0 w

/-- `VariableKind::to_bound_variable(interner, BoundVar::new(INNERMOST, i))`; the const's type is
    recovered from the kind's type code by `cty`. -/
def VarKind.toBoundVar (cty : Nat → Ty) (i : Nat) : VarKind → GArg
  | .ty _ => .ty (.bound 0 i)
  | .lt => .lt (.bound 0 i)
  | .const c => .ct (.mk (cty c) (.bound 0 i))

/-- `Binders::identity_substitution`: the i-th kind becomes bound variable `^0.i`. -/
def identitySubstFrom (cty : Nat → Ty) (i : Nat) : List VarKind → List GArg
  | [] => []
  | k :: ks => k.toBoundVar cty i :: identitySubstFrom cty (i + 1) ks

def identitySubst (cty : Nat → Ty) (kinds : List VarKind) : List GArg := identitySubstFrom cty 0 kinds

/-- `Binders::substitute(interner, parameters)`: asserts equal lengths, then `Subst::apply`. -/
def bindersSubstituteTy (kinds : List VarKind) (value : Ty) (params : List GArg) : Res Ty :=
  if kinds.length = params.length then value.subst params
  else .error (.panic "assert_eq binders.len parameters.len")

end Chalk
