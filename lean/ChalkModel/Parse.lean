/-
  Recursive-descent parser for exactly the token language `Display.print` emits, producing the
  abstract program back.  It plays the role of `chalk_parse` + name resolution of
  `chalk_integration::lowering` on the writer's output: variables are recognised by their canonical
  names (`_d_i`, `'_d_i`, `Self`), decoded back to de Bruijn form with the *same* state discipline as
  the writer (`PSt` carries the writer's `St` plus the kinds of the binders in scope, which decide
  whether `_d_i` in a generic-argument position is a type or a constant).  The expansion that
  lowering performs on alias-eq clauses is *not* done here (`Display.reparse` models it), so that
  `parse (print p) = some p`.

  All functions take fuel (structural recursion); `parseProgram` supplies enough for any input.
-/
import ChalkModel.Display

namespace Chalk.Display.Parse
open Chalk.Display

structure PSt where
  st : St
  /-- kinds of the binders in scope, innermost first -/
  env : List (List VK)
  deriving Repr, Inhabited

def PSt.init : PSt := ⟨St.init, []⟩

def PSt.deeper (p : PSt) (ks : List VK) (selfIdx : Option Nat) : PSt := ⟨p.st.deeper selfIdx, ks :: p.env⟩

/-- the state inside an associated type (value) of an item whose state is `p` and which has `n`
    binders: one more binder level `ks` (the item's `n` binders followed by the own ones), the first
    `n` of which are written under the names of the item's binders (`add_parameter_mapping`).  The
    item's own level is not addressable from inside (everything refers to the new level), so its
    kinds are blanked out. -/
def PSt.mapped (p : PSt) (n : Nat) (ks : List VK) : PSt :=
  ⟨(p.st.deeper none).addMapping (((p.st.deeper none).binderIndices ks.length).take n) (p.st.binderIndices n),
   ks :: p.env.map (fun _ => [])⟩

def invLookup (r : Nat × Nat) : List ((Nat × Nat) × (Nat × Nat)) → Option (Nat × Nat)
  | [] => none
  | (k, w) :: rest => if w = r then some k else invLookup r rest

/-- the bound variable `(depth, index)` that the writer prints as the inverted pair `r` -/
def PSt.decode (p : PSt) (r : Nat × Nat) : Option (Nat × Nat) :=
  let v := (invLookup r p.st.remap).getD r
  if v.1 ≤ p.st.deep then some (p.st.deep - v.1, v.2) else none

def kindAt (env : List (List VK)) (d i : Nat) : Option VK :=
  match env[d]? with
  | some ks => ks[i]?
  | none => none

/-- a type/const variable token -/
def PSt.varOf (p : PSt) : Tok → Option (Nat × Nat)
  | .var d i => p.decode (d, i)
  | .self => match p.st.self? with
      | some r => p.decode r
      | none => none
  | _ => none

def parseLt (p : PSt) : List Tok → Option (Lt × List Tok)
  | .kw "'static" :: rest => some (.static, rest)
  | .kw "'erased" :: rest => some (.erased, rest)
  | .ltVar d i :: rest => match p.decode (d, i) with
      | some (db, j) => some (.bound db j, rest)
      | none => none
  | _ => none

def isLtStart : List Tok → Bool
  | .kw "'static" :: _ => true
  | .kw "'erased" :: _ => true
  | .ltVar _ _ :: _ => true
  | _ => false

def parseCt (p : PSt) : List Tok → Option (Ct × List Tok)
  | .num n :: rest => some (.val n, rest)
  | t :: rest => match p.varOf t with
      | some (db, j) => some (.bound db j, rest)
      | none => none
  | [] => none

/-- binder declarations `x, 'y, const z` up to (not including) `>`; names are not inspected -/
def parseBinders : Nat → List Tok → Option (List VK × List Tok)
  | 0, _ => none
  | fuel + 1, toks =>
    let one : Option (VK × List Tok) := match toks with
      | .var _ _ :: rest => some (.ty, rest)
      | .self :: rest => some (.ty, rest)
      | .ltVar _ _ :: rest => some (.lt, rest)
      | .kw "const" :: .var _ _ :: rest => some (.ct, rest)
      | _ => none
    match one with
    | none => none
    | some (k, rest) => match rest with
      | .kw "," :: rest' => match parseBinders fuel rest' with
          | some (ks, rest'') => some (k :: ks, rest'')
          | none => none
      | _ => some ([k], rest)

/-- `<binders>` or nothing -/
def parseAngleBinders (fuel : Nat) : List Tok → Option (List VK × List Tok)
  | .kw "<" :: rest => match parseBinders fuel rest with
      | some (ks, .kw ">" :: rest') => some (ks, rest')
      | _ => none
  | toks => some ([], toks)

/-- `forall<binders>` or nothing -/
def parseForall (fuel : Nat) : List Tok → Option (List VK × List Tok)
  | .kw "forall" :: .kw "<" :: rest => match parseBinders fuel rest with
      | some (ks, .kw ">" :: rest') => some (ks, rest')
      | _ => none
  | toks => some ([], toks)

def scalarOfName (n : String) : Option Scalar := Scalar.all.find? fun s => s.name == n

def snocArgs : Args → GArg → Args
  | .nil, b => .cons b .nil
  | .cons a as, b => .cons a (snocArgs as b)

/-- split `args ++ [x]` -/
def unsnocArgs : Args → Option (Args × GArg)
  | .nil => none
  | .cons a .nil => some (.nil, a)
  | .cons a as => match unsnocArgs as with
      | some (init, last) => some (.cons a init, last)
      | none => none

/-- what follows a trait name inside a bound or where-clause -/
inductive TraitTail where
  | plain (args : Args)
  | assoc (targs : Args) (assoc : String) (aargs : Args) (v : Ty)

mutual
  def parseTy : Nat → PSt → List Tok → Option (Ty × List Tok)
    | 0, _, _ => none
    | fuel + 1, p, toks =>
      match toks with
      | .name n :: rest => match parseAngleArgs fuel p rest with
          | some (args, rest') => some (.adt n args, rest')
          | none => none
      | .kw "(" :: rest => match rest with
          | .kw ")" :: rest' => some (.tuple .nil, rest')
          | _ => match parseTy fuel p rest with
            | some (t, .kw "," :: .kw ")" :: rest') => some (.tuple (.cons t .nil), rest')
            | some (t, .kw "," :: rest') => match parseTys fuel p rest' with
                | some (ts, .kw ")" :: rest'') => some (.tuple (.cons t ts), rest'')
                | _ => none
            | _ => none
      | .kw "&" :: rest => match parseLt p rest with
          | some (l, .kw "mut" :: rest') => match parseTy fuel p rest' with
              | some (t, rest'') => some (.ref true l t, rest'')
              | none => none
          | some (l, rest') => match parseTy fuel p rest' with
              | some (t, rest'') => some (.ref false l t, rest'')
              | none => none
          | none => none
      | .kw "*" :: .kw "mut" :: rest => match parseTy fuel p rest with
          | some (t, rest') => some (.raw true t, rest')
          | none => none
      | .kw "*" :: .kw "const" :: rest => match parseTy fuel p rest with
          | some (t, rest') => some (.raw false t, rest')
          | none => none
      | .kw "[" :: rest => match parseTy fuel p rest with
          | some (t, .kw "]" :: rest') => some (.slice t, rest')
          | some (t, .kw ";" :: rest') => match parseCt p rest' with
              | some (c, .kw "]" :: rest'') => some (.array t c, rest'')
              | _ => none
          | _ => none
      | .kw "for" :: .kw "<" :: rest => match parseBinders fuel rest with
          | some (ks, .kw ">" :: .kw "fn" :: .kw "(" :: rest') => parseFnRest fuel p ks.length rest'
          | _ => none
      | .kw "fn" :: .kw "(" :: rest => parseFnRest fuel p 0 rest
      | .kw "<" :: rest => match parseTy fuel p rest with
          | some (self, .kw "as" :: .name tr :: rest') => match parseAngleArgs fuel p rest' with
              | some (targs, .kw ">" :: .kw "::" :: .name assoc :: rest'') => match parseAngleArgs fuel p rest'' with
                  | some (aargs, rest3) => some (.proj tr assoc self targs aargs, rest3)
                  | none => none
              | _ => none
          | _ => none
      | .kw "dyn" :: rest => match parseBounds fuel (p.deeper [.ty] none) rest with
          | some (bs, .kw "+" :: rest') => match parseLt p rest' with
              | some (l, rest'') => some (.dyn bs l, rest'')
              | none => none
          | _ => none
      | .kw "!" :: rest => some (.never, rest)
      | .kw "str" :: rest => some (.str, rest)
      | .kw w :: rest => match scalarOfName w with
          | some sc => some (.scalar sc, rest)
          | none => none
      | t :: rest => match p.varOf t with
          | some (db, j) => some (.bound db j, rest)
          | none => none
      | [] => none
  /-- after `fn (`: argument types, `)`, `->`, return type, all under the `for<..>` binder -/
  def parseFnRest : Nat → PSt → Nat → List Tok → Option (Ty × List Tok)
    | 0, _, _, _ => none
    | fuel + 1, p, nb, toks =>
      let p' := p.deeper (List.replicate nb .lt) none
      match toks with
      | .kw ")" :: .kw "->" :: rest => match parseTy fuel p' rest with
          | some (ret, rest') => some (.fnPtr nb .nil ret, rest')
          | none => none
      | _ => match parseTys fuel p' toks with
          | some (args, .kw ")" :: .kw "->" :: rest) => match parseTy fuel p' rest with
              | some (ret, rest') => some (.fnPtr nb args ret, rest')
              | none => none
          | _ => none
  /-- one or more types separated by `,` -/
  def parseTys : Nat → PSt → List Tok → Option (Tys × List Tok)
    | 0, _, _ => none
    | fuel + 1, p, toks => match parseTy fuel p toks with
        | some (t, .kw "," :: rest) => match parseTys fuel p rest with
            | some (ts, rest') => some (.cons t ts, rest')
            | none => none
        | some (t, rest) => some (.cons t .nil, rest)
        | none => none
  def parseGArg : Nat → PSt → List Tok → Option (GArg × List Tok)
    | 0, _, _ => none
    | fuel + 1, p, toks =>
      if isLtStart toks then
        match parseLt p toks with
        | some (l, rest) => some (.lt l, rest)
        | none => none
      else match toks with
        | .num n :: rest => some (.ct (.val n), rest)
        | t :: rest => match p.varOf t with
            | some (db, j) => match kindAt p.env db j with
                | some .ct => some (.ct (.bound db j), rest)
                | _ => some (.ty (.bound db j), rest)
            | none => match parseTy fuel p toks with
                | some (ty, rest') => some (.ty ty, rest')
                | none => none
        | [] => none
  /-- one or more generic arguments separated by `,` -/
  def parseArgs : Nat → PSt → List Tok → Option (Args × List Tok)
    | 0, _, _ => none
    | fuel + 1, p, toks => match parseGArg fuel p toks with
        | some (a, .kw "," :: rest) => match parseArgs fuel p rest with
            | some (as, rest') => some (.cons a as, rest')
            | none => none
        | some (a, rest) => some (.cons a .nil, rest)
        | none => none
  /-- `<args>` or nothing -/
  def parseAngleArgs : Nat → PSt → List Tok → Option (Args × List Tok)
    | 0, _, _ => none
    | fuel + 1, p, toks => match toks with
        | .kw "<" :: rest => match parseArgs fuel p rest with
            | some (args, .kw ">" :: rest') => some (args, rest')
            | _ => none
        | _ => some (.nil, toks)
  /-- after a trait name: nothing, `<args>`, or `<targs, assoc<aargs> = v>` -/
  def parseTraitTail : Nat → PSt → List Tok → Option (TraitTail × List Tok)
    | 0, _, _ => none
    | fuel + 1, p, toks => match toks with
        | .kw "<" :: rest => match parseArgs fuel p rest with
            | some (args, .kw ">" :: rest') => some (.plain args, rest')
            | some (args, .kw "=" :: rest') => match unsnocArgs args with
                | some (targs, .ty (.adt assoc aargs)) => match parseTy fuel p rest' with
                    | some (v, .kw ">" :: rest'') => some (.assoc targs assoc aargs v, rest'')
                    | _ => none
                | _ => none
            | _ => none
        | _ => some (.plain .nil, toks)
  /-- `[forall<..>] tr ...`; `p` is the state outside the bound's own binders -/
  def parseBound : Nat → PSt → List Tok → Option (Bound × List Tok)
    | 0, _, _ => none
    | fuel + 1, p, toks => match parseForall fuel toks with
        | some (ks, .name tr :: rest) => match parseTraitTail fuel (p.deeper ks none) rest with
            | some (.plain args, rest') => some (.trait ks tr args, rest')
            | some (.assoc targs assoc aargs v, rest') => some (.aliasEq ks tr assoc targs aargs v, rest')
            | none => none
        | _ => none
  /-- one or more bounds separated by `+`; a `+` followed by a lifetime ends the list (`dyn`) -/
  def parseBounds : Nat → PSt → List Tok → Option (Bounds × List Tok)
    | 0, _, _ => none
    | fuel + 1, p, toks => match parseBound fuel p toks with
        | some (b, .kw "+" :: rest) =>
            if isLtStart rest then some (.cons b .nil, .kw "+" :: rest)
            else match parseBounds fuel p rest with
              | some (bs, rest') => some (.cons b bs, rest')
              | none => none
        | some (b, rest) => some (.cons b .nil, rest)
        | none => none
end

def parseWC (fuel : Nat) (p : PSt) (toks : List Tok) : Option (WC × List Tok) :=
  if isLtStart toks then
    match parseLt p toks with
    | some (a, .kw ":" :: rest) => match parseLt p rest with
        | some (b, rest') => some (.ltOutlives a b, rest')
        | none => none
    | _ => none
  else match parseTy fuel p toks with
    | some (t, .kw ":" :: rest) =>
        if isLtStart rest then
          match parseLt p rest with
          | some (l, rest') => some (.tyOutlives t l, rest')
          | none => none
        else match rest with
          | .name tr :: rest' => match parseTraitTail fuel p rest' with
              | some (.plain args, rest'') => some (.implemented t tr args, rest'')
              | some (.assoc targs assoc aargs v, rest'') => some (.aliasEq t tr assoc targs aargs v, rest'')
              | none => none
          | _ => none
    | _ => none

def parseQWC (fuel : Nat) (p : PSt) (toks : List Tok) : Option (QWC × List Tok) :=
  match parseForall fuel toks with
  | some (ks, rest) => match parseWC fuel (p.deeper ks none) rest with
      | some (w, rest') => some (⟨ks, w⟩, rest')
      | none => none
  | none => none

/-- one or more clauses separated by `,` -/
def parseQWCs : Nat → PSt → List Tok → Option (List QWC × List Tok)
  | 0, _, _ => none
  | fuel + 1, p, toks => match parseQWC fuel p toks with
      | some (q, .kw "," :: rest) => match parseQWCs fuel p rest with
          | some (qs, rest') => some (q :: qs, rest')
          | none => none
      | some (q, rest) => some ([q], rest)
      | none => none

/-- `where clauses` or nothing -/
def parseWhere (fuel : Nat) (p : PSt) : List Tok → Option (List QWC × List Tok)
  | .kw "where" :: rest => parseQWCs fuel p rest
  | toks => some ([], toks)

/-- `field_i: ty` separated by `,`, up to (not including) `}` -/
def parseFields : Nat → PSt → List Tok → Option (List Ty × List Tok)
  | 0, _, _ => none
  | fuel + 1, p, toks => match toks with
      | .idx "field" _ :: .kw ":" :: rest => match parseTy fuel p rest with
          | some (t, .kw "," :: rest') => match parseFields fuel p rest' with
              | some (ts, rest'') => some (t :: ts, rest'')
              | none => none
          | some (t, rest') => some ([t], rest')
          | none => none
      | _ => some ([], toks)

/-- `variant_i { fields },` repeated, up to (not including) `}` -/
def parseVariants : Nat → PSt → List Tok → Option (List (List Ty) × List Tok)
  | 0, _, _ => none
  | fuel + 1, p, toks => match toks with
      | .idx "variant" _ :: .kw "{" :: rest => match parseFields fuel p rest with
          | some (fs, .kw "}" :: .kw "," :: rest') => match parseVariants fuel p rest' with
              | some (vs, rest'') => some (fs :: vs, rest'')
              | none => none
          | _ => none
      | _ => some ([], toks)

/-- attributes in front of an item: `#[w]` ↦ `(w, none)`, `#[w(a)]` ↦ `(w, some a)` -/
def parseAttrs : Nat → List Tok → Option (List (String × Option String) × List Tok)
  | 0, _ => none
  | fuel + 1, toks => match toks with
      | .kw "#" :: .kw "[" :: .kw w :: .kw "]" :: rest => match parseAttrs fuel rest with
          | some (as, rest') => some ((w, none) :: as, rest')
          | none => none
      | .kw "#" :: .kw "[" :: .kw w :: .kw "(" :: .kw a :: .kw ")" :: .kw "]" :: rest => match parseAttrs fuel rest with
          | some (as, rest') => some ((w, some a) :: as, rest')
          | none => none
      | _ => some ([], toks)

def hasAttr (as : List (String × Option String)) (w : String) : Bool := as.any fun x => x.1 == w && x.2.isNone
def hasAttr1 (as : List (String × Option String)) (w a : String) : Bool := as.any fun x => x.1 == w && x.2 == some a
def attrArg (as : List (String × Option String)) (w : String) : Option String :=
  match as.find? fun x => x.1 == w && x.2.isSome with
  | some (_, a) => a
  | none => none
def reprIntOf (as : List (String × Option String)) : Option Scalar :=
  match as.find? fun x => x.1 == "repr" && (match x.2 with | some a => (scalarOfName a).isSome | none => false) with
  | some (_, some a) => scalarOfName a
  | _ => none

def parseAdt (fuel : Nat) (as : List (String × Option String)) (isEnum : Bool) : List Tok → Option (Item × List Tok)
  | .name n :: rest => match parseAngleBinders fuel rest with
      | some (ks, rest1) =>
        let p := PSt.init.deeper ks none
        match parseWhere fuel p rest1 with
        | some (wcs, .kw "{" :: rest2) =>
          let body : Option (List (List Ty) × List Tok) :=
            if isEnum then parseVariants fuel p rest2
            else match parseFields fuel p rest2 with
              | some (fs, r) => some ([fs], r)
              | none => none
          match body with
          | some (vs, .kw "}" :: rest3) =>
              some (.adt ⟨n, hasAttr as "upstream", hasAttr as "fundamental", hasAttr as "phantom_data", hasAttr as "one_zst",
                hasAttr1 as "repr" "C", hasAttr1 as "repr" "packed", reprIntOf as, isEnum, ks, wcs, vs⟩, rest3)
          | _ => none
        | _ => none
      | none => none
  | _ => none

/-- `type name<own>[: bounds][where ..];`; `p` is the trait's state, `tks` the trait's binder kinds -/
def parseAssocTy (fuel : Nat) (p : PSt) (tks : List VK) : List Tok → Option (AssocTyDatum × List Tok)
  | .kw "type" :: .name n :: rest => match parseAngleBinders fuel rest with
      | some (own, rest1) =>
        let ks := tks ++ own
        let p2 : PSt := p.mapped tks.length ks
        let bounds : Option (List Bound × List Tok) := match rest1 with
          | .kw ":" :: rest2 => match parseBounds fuel p2 rest2 with
              | some (bs, r) => some (bs.toList, r)
              | none => none
          | _ => some ([], rest1)
        match bounds with
        | some (bs, rest3) => match parseWhere fuel p2 rest3 with
            | some (wcs, .kw ";" :: rest4) => some (⟨n, ks, bs, wcs⟩, rest4)
            | _ => none
        | none => none
      | none => none
  | _ => none

def parseAssocTys : Nat → PSt → List VK → List Tok → Option (List AssocTyDatum × List Tok)
  | 0, _, _, _ => none
  | fuel + 1, p, tks, toks => match toks with
      | .kw "type" :: _ => match parseAssocTy fuel p tks toks with
          | some (a, rest) => match parseAssocTys fuel p tks rest with
              | some (as, rest') => some (a :: as, rest')
              | none => none
          | none => none
      | _ => some ([], toks)

def parseTrait (fuel : Nat) (as : List (String × Option String)) : List Tok → Option (Item × List Tok)
  | .name n :: rest => match parseAngleBinders fuel rest with
      | some (own, rest1) =>
        let ks := VK.ty :: own
        let p := PSt.init.deeper ks (some 0)
        match parseWhere fuel p rest1 with
        | some (wcs, .kw "{" :: rest2) => match parseAssocTys fuel p ks rest2 with
            | some (assocs, .kw "}" :: rest3) =>
                some (.trait ⟨n, hasAttr as "auto", hasAttr as "marker", hasAttr as "upstream", hasAttr as "fundamental",
                  hasAttr as "non_enumerable", hasAttr as "coinductive", hasAttr as "object_safe", attrArg as "lang", ks, wcs, assocs⟩, rest3)
            | _ => none
        | _ => none
      | none => none
  | _ => none

/-- `type assoc<own> = ty;`; `p` is the impl's state, `iks` the impl's binder kinds -/
def parseAssocValue (fuel : Nat) (p : PSt) (iks : List VK) : List Tok → Option (AssocTyValue × List Tok)
  | .kw "type" :: .name n :: rest => match parseAngleBinders fuel rest with
      | some (own, .kw "=" :: rest1) =>
        let ks := iks ++ own
        let p2 : PSt := p.mapped iks.length ks
        match parseTy fuel p2 rest1 with
        | some (t, .kw ";" :: rest2) => some (⟨n, ks, t⟩, rest2)
        | _ => none
      | _ => none
  | _ => none

def parseAssocValues : Nat → PSt → List VK → List Tok → Option (List AssocTyValue × List Tok)
  | 0, _, _, _ => none
  | fuel + 1, p, iks, toks => match toks with
      | .kw "type" :: _ => match parseAssocValue fuel p iks toks with
          | some (a, rest) => match parseAssocValues fuel p iks rest with
              | some (as, rest') => some (a :: as, rest')
              | none => none
          | none => none
      | _ => some ([], toks)

def parseImpl (fuel : Nat) (as : List (String × Option String)) (toks : List Tok) : Option (Item × List Tok) :=
  match parseAngleBinders fuel toks with
  | some (ks, rest) =>
    let p := PSt.init.deeper ks none
    let (neg, rest0) : Bool × List Tok := match rest with
      | .kw "!" :: r => (true, r)
      | _ => (false, rest)
    match rest0 with
    | .name tr :: rest1 => match parseAngleArgs fuel p rest1 with
        | some (args, .kw "for" :: rest2) => match parseTy fuel p rest2 with
            | some (self, rest3) => match parseWhere fuel p rest3 with
                | some (wcs, .kw "{" :: rest4) => match parseAssocValues fuel p ks rest4 with
                    | some (vals, .kw "}" :: rest5) => some (.impl ⟨hasAttr as "upstream", ks, neg, tr, args, self, wcs, vals⟩, rest5)
                    | _ => none
                | _ => none
            | none => none
        | _ => none
    | _ => none
  | none => none

def parseItem (fuel : Nat) (toks : List Tok) : Option (Item × List Tok) :=
  match parseAttrs fuel toks with
  | some (as, .kw "struct" :: rest) => parseAdt fuel as false rest
  | some (as, .kw "enum" :: rest) => parseAdt fuel as true rest
  | some (as, .kw "trait" :: rest) => parseTrait fuel as rest
  | some (as, .kw "impl" :: rest) => parseImpl fuel as rest
  | _ => none

def parseItems : Nat → Nat → List Tok → Option Program
  | 0, _, _ => none
  | _ + 1, _, [] => some []
  | n + 1, fuel, toks => match parseItem fuel toks with
      | some (it, rest) => match parseItems n fuel rest with
          | some its => some (it :: its)
          | none => none
      | none => none

/-- fuel that suffices for any token list: no function recurses without consuming a token more
    than a bounded number of times -/
def fuelFor (toks : List Tok) : Nat := 8 * toks.length + 16

def parseProgram (toks : List Tok) : Option Program := parseItems (toks.length + 1) (fuelFor toks) toks

/-- parsing a single type in the empty scope extended by `env` -/
def parseTyTop (p : PSt) (toks : List Tok) : Option Ty :=
  match parseTy (fuelFor toks) p toks with
  | some (t, []) => some t
  | _ => none

end Chalk.Display.Parse
