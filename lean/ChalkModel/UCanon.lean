/-
  Model of `chalk-solve/src/infer/ucanonicalize.rs`: `InferenceTable::u_canonicalize`,
  `UniverseMap::{new, num_canonical_universes}` (`chalk-ir/src/lib.rs`), `UniverseMapExt::{add,
  map_universe_to_canonical, map_universe_from_canonical, map_from_canonical}`, the visitor
  `UCollector`, the folders `UMapToCanonical` and `UMapFromCanonical`.

  `UniverseMap { universes: Vec<UniverseIndex> }` is the list of original universes, kept sorted by
  `add` (binary search + insert); canonical universe `i` stands for `universes[i]`.

  `UCollector` is a `TypeVisitor`.  The traversal of `chalk-ir/src/visit.rs` is modelled by the list
  of leaf call-backs it makes, in order (`visit*`); note that `TypeSuperVisitable for Const` does NOT
  visit the constant's type (the folds do fold it for concrete and bound constants).  The collector
  overrides `visit_free_placeholder` (= `add`) and `forbid_inference_vars` (= panic on the first
  inference variable); free variables are let through (`visit_free_var` default, not forbidden) and
  are therefore not listed as events.

  `UMapFromCanonical` is modelled AS REPAIRED (finding F8): it has `fold_free_placeholder_const`.
  `Legacy.uMapFromCanonical` is the folder before the repair (const placeholders handled by the
  trait default, which keeps the universe).
-/
import ChalkModel.Fold
import ChalkModel.Aggregate

namespace Chalk

/-! ### the visitor traversal -/

inductive VisitEvent where
  | infer (v : Nat)
  | placeholder (ui idx : Nat)
  deriving DecidableEq, Repr

def visitLifetime : Lifetime → List VisitEvent
  | .infer v => [.infer v]
  | .placeholder ui idx => [.placeholder ui idx]
  | _ => []

mutual
  def visitTy : Ty → List VisitEvent
    | .app _ args => visitArgs args
    | .scalar _ => []
    | .str => []
    | .never => []
    | .foreign _ => []
    | .error => []
    | .array t c => visitTy t ++ visitConst c
    | .slice t => visitTy t
    | .raw _ t => visitTy t
    | .ref _ l t => visitLifetime l ++ visitTy t
    | .placeholder ui idx => [.placeholder ui idx]
    | .dyn _ bounds l => visitQWCs bounds ++ visitLifetime l
    | .proj _ args => visitArgs args
    | .opaque _ args => visitArgs args
    | .function _ _ args => visitArgs args
    | .bound _ _ => []
    | .infer v _ => [.infer v]
  /-- `TypeSuperVisitable for Const`: only the value is looked at -/
  def visitConst : Const → List VisitEvent
    | .mk _ (.bound _ _) => []
    | .mk _ (.infer v) => [.infer v]
    | .mk _ (.placeholder ui idx) => [.placeholder ui idx]
    | .mk _ (.concrete _) => []
  def visitGArg : GArg → List VisitEvent
    | .ty t => visitTy t
    | .lt l => visitLifetime l
    | .ct c => visitConst c
  def visitArgs : Args → List VisitEvent
    | .nil => []
    | .cons a as => visitGArg a ++ visitArgs as
  def visitWC : WC → List VisitEvent
    | .implemented _ args => visitArgs args
    | .aliasEqProj _ args ty => visitArgs args ++ visitTy ty
    | .aliasEqOpaque _ args ty => visitArgs args ++ visitTy ty
    | .ltOutlives a b => visitLifetime a ++ visitLifetime b
    | .tyOutlives t l => visitTy t ++ visitLifetime l
  def visitQWC : QWC → List VisitEvent
    | .mk _ wc => visitWC wc
  def visitQWCs : QWCs → List VisitEvent
    | .nil => []
    | .cons q qs => visitQWC q ++ visitQWCs qs
end

/-! ### `UniverseMap` -/

/-- `UniverseMap::new()`: the root universe is always present -/
def umapNew : List Nat := [0]

/-- `UniverseMapExt::add`: binary search, insert at the returned position when absent (on the
    sorted vector this is sorted insertion without duplicates) -/
def umapAdd (u : Nat) : List Nat → List Nat
  | [] => [u]
  | x :: xs => if u < x then u :: x :: xs else if u = x then x :: xs else x :: umapAdd u xs

/-- index of `u` in the map (`binary_search(&universe).ok()`) -/
def umapIndex (u : Nat) : List Nat → Option Nat
  | [] => none
  | x :: xs => if x = u then some 0 else
      match umapIndex u xs with
      | some i => some (i + 1)
      | none => none

/-- `map_universe_to_canonical` -/
def mapUniverseToCanonical (um : List Nat) (u : Nat) : Option Nat := umapIndex u um

def pLastNone : Err := .panic "called Option::unwrap on a None value"

/-- `map_universe_from_canonical`, with its out-of-range rule -/
def mapUniverseFromCanonical (um : List Nat) (c : Nat) : Res Nat :=
  if c < um.length then .ok (um.getD c 0)
  else
    match um.getLast? with
    | none => .error pLastNone
    | some mx => .ok (mx + (c - um.length) + 1)

/-- `UCollector`: `visit_free_placeholder` adds the universe, an inference variable panics -/
def uCollect : List Nat → List VisitEvent → Res (List Nat)
  | um, [] => .ok um
  | _, .infer _ :: _ => .error (.panic "unexpected inference type")
  | um, .placeholder ui _ :: rest => uCollect (umapAdd ui um) rest

def pExpectedUniverse : Err := .panic "Expected UCollector to encounter this universe"
def pInferenceVar : Err := .panic "unexpected inference type"

/-- `UMapToCanonical` (forbids inference variables; free variables: trait defaults) -/
def uMapToCanonical (um : List Nat) : Folder where
  inferTy := some fun _ _ _ => .error pInferenceVar
  inferLt := some fun _ _ => .error pInferenceVar
  inferConst := some fun _ _ _ => .error pInferenceVar
  phTy := some fun ui idx _ =>
    match mapUniverseToCanonical um ui with
    | some u => .ok (.placeholder u idx)
    | none => .error pExpectedUniverse
  phLt := some fun ui idx _ =>
    match mapUniverseToCanonical um ui with
    | some u => .ok (.placeholder u idx)
    | none => .error pExpectedUniverse
  phConst := some fun ty ui idx _ =>
    match mapUniverseToCanonical um ui with
    | some u => .ok (.mk ty (.placeholder u idx))
    | none => .error pExpectedUniverse

/-- `UMapFromCanonical` as repaired for F8 (with `fold_free_placeholder_const`) -/
def uMapFromCanonical (um : List Nat) : Folder where
  inferTy := some fun _ _ _ => .error pInferenceVar
  inferLt := some fun _ _ => .error pInferenceVar
  inferConst := some fun _ _ _ => .error pInferenceVar
  phTy := some fun ui idx _ =>
    match mapUniverseFromCanonical um ui with
    | .ok u => .ok (.placeholder u idx)
    | .error e => .error e
  phLt := some fun ui idx _ =>
    match mapUniverseFromCanonical um ui with
    | .ok u => .ok (.placeholder u idx)
    | .error e => .error e
  phConst := some fun ty ui idx _ =>
    match mapUniverseFromCanonical um ui with
    | .ok u => .ok (.mk ty (.placeholder u idx))
    | .error e => .error e

/-- the folder before the repair: const placeholders fall to the trait default (fold the type,
    keep the placeholder and hence its compressed universe) -/
def Legacy.uMapFromCanonical (um : List Nat) : Folder :=
  { Chalk.uMapFromCanonical um with phConst := none }

/-- map the universe of every binder -/
def mapBinders (f : Nat → Res Nat) : List (VarKind × Nat) → Res (List (VarKind × Nat))
  | [] => .ok []
  | (k, u) :: rest =>
    match f u with
    | .error e => .error e
    | .ok u' =>
      match mapBinders f rest with
      | .error e => .error e
      | .ok bs => .ok ((k, u') :: bs)

/-- `UCanonical<T>` -/
structure UCanonical (α : Type) where
  universes : Nat
  canonical : Canon α
  deriving Repr, DecidableEq

/-- `UCanonicalized<T>` -/
structure UCanonicalized (α : Type) where
  quantified : UCanonical α
  universes : List Nat
  deriving Repr, DecidableEq

/-- the universes of the binders, added to a fresh map (first loop of `u_canonicalize`) -/
def addBinderUniverses : List Nat → List (VarKind × Nat) → List Nat
  | um, [] => um
  | um, (_, u) :: rest => addBinderUniverses (umapAdd u um) rest

/-- the `UniverseMap` that `u_canonicalize` builds for a canonical value -/
def collectUniverses (c : Canon Args) : Res (List Nat) :=
  uCollect (addBinderUniverses umapNew c.binders) (visitArgs c.value)

/-- `InferenceTable::u_canonicalize` -/
def uCanonicalize (c : Canon Args) : Res (UCanonicalized Args) :=
  match collectUniverses c with
  | .error e => .error e
  | .ok um =>
    match foldArgs (uMapToCanonical um) 0 c.value with
    | .error e => .error e
    | .ok v1 =>
      match mapBinders (fun u => match mapUniverseToCanonical um u with
                                 | some x => .ok x
                                 | none => .error pLastNone) c.binders with
      | .error e => .error e
      | .ok bs => .ok { quantified := { universes := um.length, canonical := { binders := bs, value := v1 } },
                        universes := um }

/-- `UniverseMap::map_from_canonical` -/
def mapFromCanonical (um : List Nat) (c : Canon Args) : Res (Canon Args) :=
  -- the binders iterator is lazy: it is consumed after the value has been folded
  match foldArgs (uMapFromCanonical um) 0 c.value with
  | .error e => .error e
  | .ok v =>
    match mapBinders (mapUniverseFromCanonical um) c.binders with
    | .error e => .error e
    | .ok bs => .ok { binders := bs, value := v }

def Legacy.mapFromCanonical (um : List Nat) (c : Canon Args) : Res (Canon Args) :=
  match foldArgs (Legacy.uMapFromCanonical um) 0 c.value with
  | .error e => .error e
  | .ok v =>
    match mapBinders (mapUniverseFromCanonical um) c.binders with
    | .error e => .error e
    | .ok bs => .ok { binders := bs, value := v }

end Chalk
