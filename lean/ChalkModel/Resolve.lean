/-
  C24 — name resolution and lowering as a TOTAL function `AST → ok | err kind | panic site`.

  Mirrors, arm by arm, chalk-integration/src/lowering.rs, lowering/env.rs and
  lowering/program_lowerer.rs (as repaired by the `fix:` commits c9a5508, 82a1542) on the AST of
  chalk-parse/src/ast.rs restricted to what decides the OUTCOME CLASS (which `RustIrError`
  variant, which panic site); the produced IR is not modelled.  `Version.legacy` keeps the code
  as it was before the repairs, so that the defects are theorems about the model as well.

  The AST is the one the grammar can produce: a `TraitRef` is (self type, trait name, remaining
  arguments) because the three productions that build one (`Impl`, `TraitRef<S>`, the
  projection-equality `WhereClause`) always put `GenericArg::Ty(self)` first.

  PANIC-SITE TABLE (every unwrap / expect / indexing / panic! / assert! / unreachable! of the three
  files; line numbers of the repaired files)

  | model site               | file:line                  | Rust expression                                   | condition under which it fires                               | reachable?                                                   |
  |--------------------------|----------------------------|---------------------------------------------------|--------------------------------------------------------------|--------------------------------------------------------------|
  | (none: AST shape)        | lowering.rs:445            | `self.args[0]`                                    | a `TraitRef` without arguments                               | no: every production pushes the self type first              |
  | (none: AST shape)        | lowering.rs:446            | `assert_ty_ref`                                   | first argument of a `TraitRef` is not a type                 | no: the first argument is `GenericArg::Ty(s)`, lowered by `Ty::lower` |
  | unexpectedApplyType      | lowering.rs:760 (legacy)   | `panic!("Unexpected apply type")`                 | `Ty::Apply` whose name resolves to a trait or an extern type | YES on legacy (F6); repaired: `NotStruct` / arity error      |
  | implAssocValueIdsIndex   | lowering.rs:934            | `associated_ty_value_ids[&(impl_id, name)]`       | impl value name without id                                   | no: `extract_associated_types` inserts every (impl, name)    |
  | traitAssocLookupUnwrap   | lowering.rs:1014           | `lookup_associated_ty(trait_id, name).unwrap()`   | declared associated type without lookup entry                | no: inserted for every (trait, name) of a non-auto trait; auto traits with associated types were rejected before |
  | lowerGoalTraitDataIndex  | lowering.rs:1037           | `program.trait_data[&datum.trait_id]`             | associated type datum of a trait without datum               | no: data are inserted while lowering that trait's item       |
  | lowerGoalBindersSlice    | lowering.rs:1040           | `binders[num_trait_params..]`                     | fewer binders than trait parameters                          | no: binders = trait parameters ++ own parameters             |
  | autoTraitsIndex          | env.rs:176                 | `self.auto_traits[&id]`                           | trait id without auto flag                                   | no: `extract_ids` inserts id, kind and flag together (lower_goal: from trait_data, one datum per trait item) |
  | traitKindsIndex          | env.rs:192                 | `self.trait_kinds[&id]`                           | trait id without kind                                        | no (same)                                                    |
  | adtKindsIndex            | env.rs:196                 | `self.adt_kinds[&id]`                             | adt id without kind                                          | no (same)                                                    |
  | fnDefKindsIndex          | env.rs:200                 | `self.fn_def_kinds[&id]`                          |                                                              | no (same)                                                    |
  | closureKindsIndex        | env.rs:204                 | `self.closure_kinds[&id]`                         |                                                              | no (same)                                                    |
  | opaqueKindsIndex         | env.rs:208                 | `self.opaque_ty_kinds[&id]`                       |                                                              | no (same)                                                    |
  | coroutineKindsIndex      | env.rs:212                 | `self.coroutine_kinds[&id]`                       |                                                              | no (same)                                                    |
  | traitAssocLookupIndex    | program_lowerer.rs:274     | `self.associated_ty_lookups[&(trait_id, name)]`   | as traitAssocLookupUnwrap                                    | no                                                           |
  | implAssocValueIdsIndex2  | program_lowerer.rs:335     | `self.associated_ty_value_ids[&(impl_id, name)]`  | as implAssocValueIdsIndex                                    | no                                                           |
  | implAssocLookupIndex     | program_lowerer.rs:336 (legacy) | `self.associated_ty_lookups[&(trait_id, name)]` | impl gives a value for a name the trait does not declare | YES on legacy (F6b); repaired: `MissingAssociatedType`       |
  | coroutineIdsIndex        | program_lowerer.rs:478     | `self.coroutine_ids[&defn.name.str]`              | coroutine name without id                                    | no: `extract_ids` inserts every coroutine's name             |
  | (parser, no model)       | parser.lalrpop `ConstValue`| `u32::from_str_radix(s, 10).unwrap()` (legacy)    | integer literal > u32::MAX                                   | YES on legacy (F6c); repaired: `ParseError::User`            |
  | (not a panic)            | lowering recursion / drop  | native stack                                      | nesting depth ~30 000 (lowering), ~1 000 000 (drop of the AST)| YES (F6d, open): aborts the process; outside this model      |

  `lower_no_panic` (Props/C24.lean) proves that none of the modelled sites is reachable for the
  repaired version, for every AST; the tables are association lists (`BTreeMap::insert` = cons,
  lookup = first match, so a later insert wins) and the "no" rows above are the invariants of
  `Tables.WF` / `Lowered.WF` proved there.
-/

namespace Chalk.Resolve

/-! ## Outcomes -/

/-- `RustIrError` variants (chalk-integration/src/error.rs) -/
inductive ErrKind where
  | InvalidParameterName | InvalidTraitName | NotTrait | NotStruct | DuplicateOrShadowedParameters
  | AutoTraitAssociatedTypes | AutoTraitParameters | AutoTraitWhereClauses
  | InvalidFundamentalTypesParameters | NegativeImplAssociatedValues | MissingAssociatedType
  | IncorrectNumberOfVarianceParameters | IncorrectNumberOfTypeParameters
  | IncorrectNumberOfAssociatedTypeParameters | IncorrectParameterKind
  | IncorrectTraitParameterKind | IncorrectAssociatedTypeParameterKind
  | CannotApplyTypeParameter | InvalidExternAbi
  deriving DecidableEq, Repr

inductive Site where
  | unexpectedApplyType
  | implAssocValueIdsIndex | traitAssocLookupUnwrap
  | lowerGoalTraitDataIndex | lowerGoalBindersSlice
  | autoTraitsIndex | traitKindsIndex | adtKindsIndex | fnDefKindsIndex | closureKindsIndex
  | opaqueKindsIndex | coroutineKindsIndex
  | traitAssocLookupIndex | implAssocValueIdsIndex2 | implAssocLookupIndex | coroutineIdsIndex
  deriving DecidableEq, Repr

inductive Outcome (α : Type) where
  | ok (a : α)
  | err (e : ErrKind)
  | panic (s : Site)
  deriving Repr

namespace Outcome
def andThen {α β : Type} : Outcome α → (α → Outcome β) → Outcome β
  | .ok a, f => f a
  | .err e, _ => .err e
  | .panic s, _ => .panic s

/-- `x?; y` -/
def seq {α β : Type} : Outcome α → Outcome β → Outcome β
  | .ok _, y => y
  | .err e, _ => .err e
  | .panic s, _ => .panic s

def void {α : Type} : Outcome α → Outcome Unit
  | .ok _ => .ok ()
  | .err e => .err e
  | .panic s => .panic s
end Outcome

infixr:60 " ⨾ " => Outcome.seq

inductive Version where
  | legacy | fixed
  deriving DecidableEq, Repr

/-! ## AST (chalk-parse/src/ast.rs) -/

/-- `ast::Kind` -/
inductive Kind where
  | ty | lt | const
  deriving DecidableEq, Repr

/-- `VariableKind` (`Ty`, `IntegerTy`, `FloatTy` all have kind `ty`) with the parameter name -/
structure AVarKind where
  kind : Kind
  name : String
  deriving Repr

inductive ALifetime where
  | id (n : String) | static | erased
  deriving Repr

inductive AConst where
  | id (n : String) | value
  deriving Repr

mutual
inductive ATy where
  | id (n : String)
  | apply (n : String) (args : AGArgs)
  | tuple (tys : ATys)
  | leaf                                   -- Scalar, Str, Never
  | ref (l : ALifetime) (t : ATy)
  | raw (t : ATy)
  | slice (t : ATy)
  | array (t : ATy) (c : AConst)
  | fnptr (lts : List String) (abi : String) (tys : ATys)      -- Ty::ForAll
  | proj (self : ATy) (trait : String) (targs : AGArgs) (name : String) (args : AGArgs)
  | dyn (bounds : AQIBs) (l : ALifetime)
inductive ATys where
  | nil | cons (t : ATy) (ts : ATys)
inductive AGArg where
  | ty (t : ATy) | lt (l : ALifetime) | id (n : String) | const (c : AConst)
inductive AGArgs where
  | nil | cons (a : AGArg) (as : AGArgs)
/-- `QuantifiedInlineBound` with its `InlineBound` inlined -/
inductive AQIB where
  | traitBound (vks : List AVarKind) (trait : String) (args : AGArgs)
  | aliasEq (vks : List AVarKind) (trait : String) (args : AGArgs) (name : String) (aargs : AGArgs) (value : ATy)
inductive AQIBs where
  | nil | cons (b : AQIB) (bs : AQIBs)
end

def AGArgs.length : AGArgs → Nat
  | .nil => 0
  | .cons _ as => as.length + 1

structure ATraitRef where
  self : ATy
  trait : String
  args : AGArgs

structure AProj where
  tr : ATraitRef
  name : String
  args : AGArgs

inductive AWhereClause where
  | implemented (tr : ATraitRef)
  | projEq (p : AProj) (t : ATy)
  | ltOutlives (a b : ALifetime)
  | tyOutlives (t : ATy) (l : ALifetime)

structure AQWC where
  vks : List AVarKind
  wc : AWhereClause

inductive ADomainGoal where
  | holds (wc : AWhereClause)
  | normalize (p : AProj) (t : ATy)
  | ofTy (t : ATy)              -- TyWellFormed, TyFromEnv, IsLocal, IsUpstream, IsFullyVisible, DownstreamType
  | ofTraitRef (tr : ATraitRef) -- TraitRefWellFormed, TraitRefFromEnv, LocalImplAllowed
  | nullary                     -- Compatible, Reveal
  | objectSafe (n : String)

inductive ALeaf where
  | domain (dg : ADomainGoal)
  | unify (a b : AGArg)
  | subtype (a b : ATy)

mutual
inductive AGoal where
  | quant (vks : List AVarKind) (g : AGoal)     -- ForAll / Exists
  | implies (hyp : AClauses) (g : AGoal)
  | and (gs : AGoals)                          -- And(g1, g2s) as g1 :: g2s
  | not (g : AGoal)
  | compatible (g : AGoal)
  | leaf (l : ALeaf)
inductive AGoals where
  | nil | cons (g : AGoal) (gs : AGoals)
inductive AClause where
  | mk (vks : List AVarKind) (consequence : ADomainGoal) (conditions : AGoals)
inductive AClauses where
  | nil | cons (c : AClause) (cs : AClauses)
end

structure AAssocTyDefn where
  name : String
  vks : List AVarKind
  bounds : AQIBs
  wcs : List AQWC

structure AAssocTyValue where
  name : String
  vks : List AVarKind
  value : ATy

inductive AItem where
  | adt (name : String) (vks : List AVarKind) (fundamental : Bool) (fields : ATys) (wcs : List AQWC)
        (variances : Option Nat)
  | fnDef (name : String) (vks : List AVarKind) (wcs : List AQWC) (args : ATys) (ret : ATy) (abi : String)
        (variances : Option Nat)
  | closure (name : String) (vks : List AVarKind) (args : ATys) (ret : ATy) (upvars : ATys)
  | trait (name : String) (vks : List AVarKind) (auto : Bool) (wcs : List AQWC) (assoc : List AAssocTyDefn)
  | opaqueTy (name : String) (vks : List AVarKind) (ty : ATy) (bounds : AQIBs) (wcs : List AQWC)
  | coroutine (name : String) (vks : List AVarKind) (upvars : ATys) (resume yield ret : ATy)
        (witnesses : ATys) (witnessLts : List String)
  | impl (vks : List AVarKind) (positive : Bool) (tr : ATraitRef) (wcs : List AQWC)
        (values : List AAssocTyValue)
  | clause (c : AClause)
  | foreign (name : String)

abbrev AProgram := List AItem

/-! ## Tables (`ProgramLowerer` fields / `Env`) -/

def alookup {κ ν : Type} [DecidableEq κ] : List (κ × ν) → κ → Option ν
  | [], _ => none
  | (k, v) :: rest, key => if k = key then some v else alookup rest key

structure AssocLookup where
  id : Nat
  addl : List Kind

structure Tables where
  adtIds : List (String × Nat) := []
  adtKinds : List (Nat × List Kind) := []
  fnDefIds : List (String × Nat) := []
  fnDefKinds : List (Nat × List Kind) := []
  closureIds : List (String × Nat) := []
  closureKinds : List (Nat × List Kind) := []
  traitIds : List (String × Nat) := []
  traitKinds : List (Nat × List Kind) := []
  autoTraits : List (Nat × Bool) := []
  opaqueIds : List (String × Nat) := []
  opaqueKinds : List (Nat × List Kind) := []
  foreignIds : List (String × Nat) := []
  coroutineIds : List (String × Nat) := []
  coroutineKinds : List (Nat × List Kind) := []
  assocLookups : List ((Nat × String) × AssocLookup) := []
  assocValueIds : List ((Nat × String) × Nat) := []

structure Env where
  ver : Version
  tb : Tables
  /-- `parameter_map`: only the kind of a parameter matters for the outcome -/
  params : List (String × Kind)

inductive TypeLookup where
  | param (k : Kind) | adt (id : Nat) | fnDef (id : Nat) | closure (id : Nat) | opaque (id : Nat)
  | foreign (id : Nat) | trait (id : Nat) | coroutine (id : Nat)

/-- `Env::lookup_type` (`none` = `Err(NotStruct)`) -/
def Env.lookupType (env : Env) (n : String) : Option TypeLookup :=
  match alookup env.params n with
  | some k => some (.param k)
  | none =>
  match alookup env.tb.adtIds n with
  | some id => some (.adt id)
  | none =>
  match alookup env.tb.fnDefIds n with
  | some id => some (.fnDef id)
  | none =>
  match alookup env.tb.closureIds n with
  | some id => some (.closure id)
  | none =>
  match alookup env.tb.opaqueIds n with
  | some id => some (.opaque id)
  | none =>
  match alookup env.tb.foreignIds n with
  | some id => some (.foreign id)
  | none =>
  match alookup env.tb.traitIds n with
  | some id => some (.trait id)
  | none =>
  match alookup env.tb.coroutineIds n with
  | some id => some (.coroutine id)
  | none => none

/-- indexing `self.xxx_kinds[&id]` (env.rs:192-212) -/
def kindsIndex (site : Site) (tbl : List (Nat × List Kind)) (id : Nat) : Outcome (List Kind) :=
  match alookup tbl id with
  | some ks => .ok ks
  | none => .panic site

/-- the `tykind!` macro of `lookup_generic_arg`: an unapplied name must have no parameters -/
def unappliedKind (ks : Outcome (List Kind)) : Outcome Kind :=
  ks.andThen fun ks => if ks.length > 0 then .err .IncorrectNumberOfTypeParameters else .ok .ty

/-- `Env::lookup_generic_arg`: the kind of the generic argument a bare name denotes -/
def Env.lookupGenericArg (env : Env) (n : String) : Outcome Kind :=
  match env.lookupType n with
  | some (.param k) => .ok k
  | some (.adt id) => unappliedKind (kindsIndex .adtKindsIndex env.tb.adtKinds id)
  | some (.fnDef id) => unappliedKind (kindsIndex .fnDefKindsIndex env.tb.fnDefKinds id)
  | some (.closure id) => unappliedKind (kindsIndex .closureKindsIndex env.tb.closureKinds id)
  | some (.coroutine id) => unappliedKind (kindsIndex .coroutineKindsIndex env.tb.coroutineKinds id)
  | some (.opaque _) => .ok .ty
  | some (.foreign _) => .ok .ty
  | some (.trait _) => .err .NotStruct
  | none => .err .InvalidParameterName

/-- `Env::lookup_trait` -/
def Env.lookupTrait (env : Env) (n : String) : Outcome Nat :=
  match alookup env.tb.traitIds n with
  | some id => .ok id
  | none =>
    if (alookup env.params n).isSome || (alookup env.tb.adtIds n).isSome then .err .NotTrait
    else .err .InvalidTraitName

/-- `Env::auto_trait` (env.rs:176) -/
def Env.autoTrait (env : Env) (id : Nat) : Outcome Bool :=
  match alookup env.tb.autoTraits id with
  | some b => .ok b
  | none => .panic .autoTraitsIndex

/-- `Env::lookup_associated_ty` -/
def Env.lookupAssocTy (env : Env) (traitId : Nat) (n : String) : Outcome AssocLookup :=
  match alookup env.tb.assocLookups (traitId, n) with
  | some l => .ok l
  | none => .err .MissingAssociatedType

def allDistinct : List String → Bool
  | [] => true
  | x :: xs => !xs.contains x && allDistinct xs

/-- `Env::introduce`: the new map must have exactly `old + new` keys -/
def Env.introduce (env : Env) (new : List (String × Kind)) : Outcome Env :=
  if allDistinct (new.map (·.1)) && new.all (fun p => (alookup env.params p.1).isNone) then
    .ok { env with params := new ++ env.params }
  else .err .DuplicateOrShadowedParameters

def vkPairs (vks : List AVarKind) : List (String × Kind) := vks.map fun v => (v.name, v.kind)
def vkKinds (vks : List AVarKind) : List Kind := vks.map (·.kind)

def kindsMismatch : List Kind → List Kind → Bool
  | e :: es, a :: as => e != a || kindsMismatch es as
  | _, _ => false

/-- arity then kinds of an argument list against declared binders; the arguments are lowered
    between the two checks (`args` is their outcome) -/
def checkArgs (arityErr kindErr : ErrKind) (expected : List Kind) (n : Nat) (args : Outcome (List Kind)) :
    Outcome Unit :=
  if expected.length ≠ n then .err arityErr
  else args.andThen fun as => if kindsMismatch expected as then .err kindErr else .ok ()

/-- like `checkArgs`, but the arguments are lowered BEFORE the arity check
    (`TraitBound::lower`, `AliasEqBound::lower`, `ProjectionTy::lower`) -/
def checkArgsAfter (arityErr kindErr : ErrKind) (expected : List Kind) (args : Outcome (List Kind)) :
    Outcome Unit :=
  args.andThen fun as =>
    if as.length ≠ expected.length then .err arityErr
    else if kindsMismatch expected as then .err kindErr else .ok ()

def fixmeSelf : String := "__FIXME_SELF__"
def selfName : String := "Self"

def lowerAbi (abi : String) : Outcome Unit :=
  if abi = "Rust" || abi = "C" then .ok () else .err .InvalidExternAbi

def lowerLifetime (env : Env) : ALifetime → Outcome Unit
  | .id n => (env.lookupGenericArg n).andThen fun k =>
      if k = .lt then .ok () else .err .IncorrectParameterKind
  | .static => .ok ()
  | .erased => .ok ()

def lowerConst (env : Env) : AConst → Outcome Unit
  | .id n => (env.lookupGenericArg n).andThen fun k =>
      if k = .const then .ok () else .err .IncorrectParameterKind
  | .value => .ok ()

/-- result of the first loop of `[QuantifiedInlineBound]::lower` for one bound, together with
    the outcome of lowering that bound (lowering is pure, so it can be evaluated up front) -/
structure BoundRes where
  traitId : Outcome Nat
  auto : Outcome Bool
  lowered : Outcome Unit

/-- first failure of the lookup loop, in source order -/
def boundsLookupPhase : List BoundRes → Outcome Unit
  | [] => .ok ()
  | b :: bs => b.traitId.void ⨾ b.auto.void ⨾ boundsLookupPhase bs

def firstFailure : List (Outcome Unit) → Outcome Unit
  | [] => .ok ()
  | o :: os => o ⨾ firstFailure os

def insertById (x : Nat × Outcome Unit) : List (Nat × Outcome Unit) → List (Nat × Outcome Unit)
  | [] => [x]
  | y :: ys => if x.1 ≤ y.1 then x :: y :: ys else y :: insertById x ys

/-- stable sort by trait id (`sort_by_key`): an element is inserted in front of the already sorted
    later elements with an equal key -/
def sortById : List (Nat × Outcome Unit) → List (Nat × Outcome Unit)
  | [] => []
  | x :: xs => insertById x (sortById xs)

def okOr {α : Type} (d : α) : Outcome α → α
  | .ok a => a
  | _ => d

/-- `[QuantifiedInlineBound]::lower`: all lookups first; then regular bounds in source order,
    then auto-trait bounds sorted by trait id; first error wins -/
def combineBounds (rs : List BoundRes) : Outcome Unit :=
  boundsLookupPhase rs ⨾
    firstFailure
      ((rs.filter (fun r => !okOr false r.auto)).map (·.lowered) ++
       (sortById ((rs.filter (fun r => okOr false r.auto)).map fun r => (okOr 0 r.traitId, r.lowered))).map (·.2))

/-- `impl LowerWithEnv for TraitBound` given the outcome of lowering its arguments (which the
    Rust code does after the trait lookup; lowering is pure): the trait id -/
def lowerTraitBoundWith (env : Env) (trait : String) (args : Outcome (List Kind)) : Outcome Nat :=
  (env.lookupTrait trait).andThen fun tid =>
    (kindsIndex .traitKindsIndex env.tb.traitKinds tid).andThen fun ks =>
      checkArgsAfter .IncorrectNumberOfTypeParameters .IncorrectTraitParameterKind ks args ⨾
      .ok tid

mutual
/-- `impl LowerWithEnv for Ty` -/
def lowerTy (env : Env) : ATy → Outcome Unit
  | .id n => (env.lookupGenericArg n).andThen fun k =>
      if k = .ty then .ok () else .err .IncorrectParameterKind
  | .apply n args =>
      match env.lookupType n with
      | none => .err .NotStruct
      | some (.param _) => .err .CannotApplyTypeParameter
      | some (.adt id) =>
          (kindsIndex .adtKindsIndex env.tb.adtKinds id).andThen fun ks =>
            checkArgs .IncorrectNumberOfTypeParameters .IncorrectParameterKind ks args.length (lowerGArgs env args)
      | some (.fnDef id) =>
          (kindsIndex .fnDefKindsIndex env.tb.fnDefKinds id).andThen fun ks =>
            checkArgs .IncorrectNumberOfTypeParameters .IncorrectParameterKind ks args.length (lowerGArgs env args)
      | some (.closure id) =>
          (kindsIndex .closureKindsIndex env.tb.closureKinds id).andThen fun ks =>
            checkArgs .IncorrectNumberOfTypeParameters .IncorrectParameterKind ks args.length (lowerGArgs env args)
      | some (.opaque id) =>
          (kindsIndex .opaqueKindsIndex env.tb.opaqueKinds id).andThen fun ks =>
            checkArgs .IncorrectNumberOfTypeParameters .IncorrectParameterKind ks args.length (lowerGArgs env args)
      | some (.coroutine id) =>
          (kindsIndex .coroutineKindsIndex env.tb.coroutineKinds id).andThen fun ks =>
            checkArgs .IncorrectNumberOfTypeParameters .IncorrectParameterKind ks args.length (lowerGArgs env args)
      | some (.foreign _) =>
          match env.ver with
          | .legacy => .panic .unexpectedApplyType
          | .fixed => if args.length ≠ 0 then .err .IncorrectNumberOfTypeParameters else .ok ()
      | some (.trait _) =>
          match env.ver with
          | .legacy => .panic .unexpectedApplyType
          | .fixed => .err .NotStruct
  | .tuple tys => lowerTys env tys
  | .leaf => .ok ()
  | .ref l t => lowerLifetime env l ⨾ lowerTy env t
  | .raw t => lowerTy env t
  | .slice t => lowerTy env t
  | .array t c => lowerTy env t ⨾ lowerConst env c
  | .fnptr lts abi tys =>
      match env.introduce (lts.map fun n => (n, Kind.lt)) with
      | .ok env' => lowerTys env' tys ⨾ lowerAbi abi
      | .err e => .err e
      | .panic s => .panic s
  | .proj self trait targs name args =>
      -- ProjectionTy::lower: trait_ref.lower (bound first, then self), lookup, args, checks
      (lowerTraitBoundWith env trait (lowerGArgs env targs)).andThen fun tid =>
        lowerTy env self ⨾
        (env.lookupAssocTy tid name).andThen fun lk =>
          checkArgsAfter .IncorrectNumberOfAssociatedTypeParameters .IncorrectAssociatedTypeParameterKind
            lk.addl (lowerGArgs env args)
  | .dyn bounds l =>
      match env.introduce [(fixmeSelf, Kind.ty)] with
      | .ok env' => combineBounds (lowerQIBs env' bounds) ⨾ lowerLifetime env l
      | .err e => .err e
      | .panic s => .panic s

def lowerTys (env : Env) : ATys → Outcome Unit
  | .nil => .ok ()
  | .cons t ts => lowerTy env t ⨾ lowerTys env ts

/-- `impl LowerWithEnv for GenericArg`: the kind of the lowered argument -/
def lowerGArg (env : Env) : AGArg → Outcome Kind
  | .ty t => lowerTy env t ⨾ .ok .ty
  | .lt l => lowerLifetime env l ⨾ .ok .lt
  | .id n => env.lookupGenericArg n
  | .const c => lowerConst env c ⨾ .ok .const

def lowerGArgs (env : Env) : AGArgs → Outcome (List Kind)
  | .nil => .ok []
  | .cons a as =>
      (lowerGArg env a).andThen fun k => (lowerGArgs env as).andThen fun ks => .ok (k :: ks)

/-- one `QuantifiedInlineBound`: lookup results of the first loop and its own lowering -/
def lowerQIB (env : Env) : AQIB → BoundRes
  | .traitBound vks trait args =>
      let tid := env.lookupTrait trait
      { traitId := tid
        auto := tid.andThen env.autoTrait
        lowered :=
          match env.introduce (vkPairs vks) with
          | .ok env' => (lowerTraitBoundWith env' trait (lowerGArgs env' args)).void
          | .err e => .err e
          | .panic s => .panic s }
  | .aliasEq vks trait args name aargs value =>
      let tid := env.lookupTrait trait
      { traitId := tid
        auto := tid.andThen env.autoTrait
        lowered :=
          match env.introduce (vkPairs vks) with
          | .ok env' =>
              (lowerTraitBoundWith env' trait (lowerGArgs env' args)).andThen fun t =>
                (env'.lookupAssocTy t name).andThen fun lk =>
                  checkArgsAfter .IncorrectNumberOfAssociatedTypeParameters
                    .IncorrectAssociatedTypeParameterKind lk.addl (lowerGArgs env' aargs) ⨾
                  lowerTy env' value
          | .err e => .err e
          | .panic s => .panic s }

def lowerQIBs (env : Env) : AQIBs → List BoundRes
  | .nil => []
  | .cons b bs => lowerQIB env b :: lowerQIBs env bs
end

def lowerTraitBound (env : Env) (trait : String) (args : AGArgs) : Outcome Nat :=
  lowerTraitBoundWith env trait (lowerGArgs env args)

/-- `impl LowerWithEnv for TraitRef`: the bound (trait, arguments) first, then the self type -/
def lowerTraitRef (env : Env) (tr : ATraitRef) : Outcome Nat :=
  (lowerTraitBound env tr.trait tr.args).andThen fun tid => lowerTy env tr.self ⨾ .ok tid

/-- `impl LowerWithEnv for ProjectionTy` -/
def lowerProj (env : Env) (p : AProj) : Outcome Unit :=
  (lowerTraitRef env p.tr).andThen fun tid =>
    (env.lookupAssocTy tid p.name).andThen fun lk =>
      checkArgsAfter .IncorrectNumberOfAssociatedTypeParameters .IncorrectAssociatedTypeParameterKind
        lk.addl (lowerGArgs env p.args)

/-- `impl LowerWithEnv for WhereClause` -/
def lowerWhereClause (env : Env) : AWhereClause → Outcome Unit
  | .implemented tr => (lowerTraitRef env tr).void
  | .projEq p t => lowerProj env p ⨾ lowerTy env t ⨾ (lowerTraitRef env p.tr).void
  | .ltOutlives a b => lowerLifetime env a ⨾ lowerLifetime env b
  | .tyOutlives t l => lowerTy env t ⨾ lowerLifetime env l

/-- `Env::in_binders` specialised to outcome classes -/
def inBinders (env : Env) (vks : List (String × Kind)) (op : Env → Outcome Unit) : Outcome Unit :=
  (env.introduce vks).andThen op

def lowerQWC (env : Env) (w : AQWC) : Outcome Unit :=
  inBinders env (vkPairs w.vks) fun env' => lowerWhereClause env' w.wc

def lowerQWCs (env : Env) : List AQWC → Outcome Unit
  | [] => .ok ()
  | w :: ws => lowerQWC env w ⨾ lowerQWCs env ws

/-- `impl LowerWithEnv for DomainGoal` -/
def lowerDomainGoal (env : Env) : ADomainGoal → Outcome Unit
  | .holds wc => lowerWhereClause env wc
  | .normalize p t => lowerProj env p ⨾ lowerTy env t
  | .ofTy t => lowerTy env t
  | .ofTraitRef tr => (lowerTraitRef env tr).void
  | .nullary => .ok ()
  | .objectSafe n => (env.lookupTrait n).void

/-- `impl LowerWithEnv for LeafGoal` -/
def lowerLeaf (env : Env) : ALeaf → Outcome Unit
  | .domain dg => lowerDomainGoal env dg
  | .unify a b => (lowerGArg env a).void ⨾ (lowerGArg env b).void
  | .subtype a b => lowerTy env a ⨾ lowerTy env b

mutual
/-- `impl LowerWithEnv for Goal` -/
def lowerGoal (env : Env) : AGoal → Outcome Unit
  | .quant vks g =>
      if vks.isEmpty then lowerGoal env g
      else
        match env.introduce (vkPairs vks) with
        | .ok env' => lowerGoal env' g
        | .err e => .err e
        | .panic s => .panic s
  | .implies hyp g => lowerClauses env hyp ⨾ lowerGoal env g
  | .and gs => lowerGoals env gs
  | .not g => lowerGoal env g
  | .compatible g => lowerGoal env g
  | .leaf l => lowerLeaf env l

def lowerGoals (env : Env) : AGoals → Outcome Unit
  | .nil => .ok ()
  | .cons g gs => lowerGoal env g ⨾ lowerGoals env gs

/-- conditions of a clause are lowered through `.rev()`: the LAST failing one reports -/
def lowerGoalsRev (env : Env) : AGoals → Outcome Unit
  | .nil => .ok ()
  | .cons g gs => lowerGoalsRev env gs ⨾ lowerGoal env g

/-- `impl LowerWithEnv for Clause` -/
def lowerClause (env : Env) : AClause → Outcome Unit
  | .mk vks consequence conditions =>
      match env.introduce (vkPairs vks) with
      | .ok env' => lowerDomainGoal env' consequence ⨾ lowerGoalsRev env' conditions
      | .err e => .err e
      | .panic s => .panic s

def lowerClauses (env : Env) : AClauses → Outcome Unit
  | .nil => .ok ()
  | .cons c cs => lowerClause env c ⨾ lowerClauses env cs
end

/-! ## Program lowering (`impl Lower for Program`, `ProgramLowerer`) -/

/-- one `associated_ty_lookups.insert((TraitId(raw_id), name), lookup)` with a fresh id -/
def traitAssocStep (rawId : Nat) (acc : Tables × Nat) (d : AAssocTyDefn) : Tables × Nat :=
  ({ acc.1 with assocLookups := ((rawId, d.name), ⟨acc.2, vkKinds d.vks⟩) :: acc.1.assocLookups }, acc.2 + 1)

/-- one `associated_ty_value_ids.insert((ImplId(raw_id), name), id)` with a fresh id -/
def implValueStep (rawId : Nat) (acc : Tables × Nat) (v : AAssocTyValue) : Tables × Nat :=
  ({ acc.1 with assocValueIds := ((rawId, v.name), acc.2) :: acc.1.assocValueIds }, acc.2 + 1)

/-- `extract_associated_types` for one item; `next` is `next_item_index` -/
def extractAssocItem (tb : Tables) (next : Nat) (rawId : Nat) : AItem → Outcome (Tables × Nat)
  | .trait _ _ auto _ assoc =>
      if auto && !assoc.isEmpty then .err .AutoTraitAssociatedTypes
      else .ok (assoc.foldl (traitAssocStep rawId) (tb, next))
  | .impl _ _ _ _ values => .ok (values.foldl (implValueStep rawId) (tb, next))
  | _ => .ok (tb, next)

def extractAssoc (tb : Tables) (next : Nat) (rawId : Nat) : List AItem → Outcome (Tables × Nat)
  | [] => .ok (tb, next)
  | it :: rest =>
      (extractAssocItem tb next rawId it).andThen fun r => extractAssoc r.1 r.2 (rawId + 1) rest

/-- `extract_ids` for one item (never fails) -/
def extractIdsItem (tb : Tables) (rawId : Nat) : AItem → Tables
  | .adt name vks _ _ _ _ =>
      { tb with adtIds := (name, rawId) :: tb.adtIds, adtKinds := (rawId, vkKinds vks) :: tb.adtKinds }
  | .fnDef name vks _ _ _ _ _ =>
      { tb with fnDefIds := (name, rawId) :: tb.fnDefIds, fnDefKinds := (rawId, vkKinds vks) :: tb.fnDefKinds }
  | .closure name vks _ _ _ =>
      { tb with closureIds := (name, rawId) :: tb.closureIds,
                closureKinds := (rawId, vkKinds vks) :: tb.closureKinds }
  | .trait name vks auto _ _ =>
      { tb with traitIds := (name, rawId) :: tb.traitIds, traitKinds := (rawId, vkKinds vks) :: tb.traitKinds,
                autoTraits := (rawId, auto) :: tb.autoTraits }
  | .opaqueTy name vks _ _ _ =>
      { tb with opaqueIds := (name, rawId) :: tb.opaqueIds, opaqueKinds := (rawId, vkKinds vks) :: tb.opaqueKinds }
  | .foreign name => { tb with foreignIds := (name, rawId) :: tb.foreignIds }
  | .coroutine name vks _ _ _ _ _ _ =>
      { tb with coroutineIds := (name, rawId) :: tb.coroutineIds,
                coroutineKinds := (rawId, vkKinds vks) :: tb.coroutineKinds }
  | .impl .. => tb
  | .clause _ => tb

def extractIds (tb : Tables) (rawId : Nat) : List AItem → Tables
  | [] => tb
  | it :: rest => extractIds (extractIdsItem tb rawId it) (rawId + 1) rest

/-- what `lower_goal` reads back from the lowered program -/
structure TraitDatum where
  id : Nat
  /-- `binders.len()`: Self + declared parameters -/
  nBinders : Nat
  auto : Bool

structure AssocTyDatum where
  id : Nat
  traitId : Nat
  name : String
  /-- trait parameters (with Self) ++ own parameters -/
  binders : List Kind

structure Lowered where
  tb : Tables
  traitData : List (Nat × TraitDatum) := []
  assocTyData : List (Nat × AssocTyDatum) := []

def varianceCheck (variances : Option Nat) (nParams : Nat) : Outcome Unit :=
  match variances with
  | some n => if n ≠ nParams then .err .IncorrectNumberOfVarianceParameters else .ok ()
  | none => .ok ()

def selfParam : String × Kind := (selfName, Kind.ty)

/-- associated type definitions of a trait (program_lowerer.rs:272-324) -/
def lowerAssocDefns (env : Env) (traitId : Nat) (traitParams : List (String × Kind)) (acc : Lowered) :
    List AAssocTyDefn → Outcome Lowered
  | [] => .ok acc
  | d :: ds =>
      match alookup env.tb.assocLookups (traitId, d.name) with
      | none => .panic .traitAssocLookupIndex
      | some lk =>
          (inBinders env (traitParams ++ vkPairs d.vks) fun env' =>
              combineBounds (lowerQIBs env' d.bounds) ⨾ lowerQWCs env' d.wcs).andThen fun _ =>
            lowerAssocDefns env traitId traitParams
              { acc with assocTyData :=
                  (lk.id, ⟨lk.id, traitId, d.name, (traitParams ++ vkPairs d.vks).map (·.2)⟩) :: acc.assocTyData }
              ds

/-- `associated_ty_ids` of `TraitDefn::lower` (lowering.rs:1014) -/
def traitAssocIds (env : Env) (traitId : Nat) : List AAssocTyDefn → Outcome Unit
  | [] => .ok ()
  | d :: ds =>
      match alookup env.tb.assocLookups (traitId, d.name) with
      | none => .panic .traitAssocLookupUnwrap
      | some _ => traitAssocIds env traitId ds

/-- `associated_ty_value_ids` of `Impl::lower` (lowering.rs:934) -/
def implValueIds (env : Env) (site : Site) (implId : Nat) : List AAssocTyValue → Outcome Unit
  | [] => .ok ()
  | v :: vs =>
      match alookup env.tb.assocValueIds (implId, v.name) with
      | none => .panic site
      | some _ => implValueIds env site implId vs

/-- associated type values of an impl (program_lowerer.rs:334-360) -/
def lowerAssocValues (env : Env) (implId traitId : Nat) (implParams : List (String × Kind)) :
    List AAssocTyValue → Outcome Unit
  | [] => .ok ()
  | v :: vs =>
      match alookup env.tb.assocValueIds (implId, v.name) with
      | none => .panic .implAssocValueIdsIndex2
      | some _ =>
          match alookup env.tb.assocLookups (traitId, v.name) with
          | none =>
              match env.ver with
              | .legacy => .panic .implAssocLookupIndex
              | .fixed => .err .MissingAssociatedType
          | some _ =>
              inBinders env (implParams ++ vkPairs v.vks) (fun env' => lowerTy env' v.value) ⨾
              lowerAssocValues env implId traitId implParams vs

/-- one iteration of the loop of `ProgramLowerer::lower` -/
def lowerItem (env : Env) (rawId : Nat) (acc : Lowered) : AItem → Outcome Lowered
  | .adt _ vks fundamental fields wcs variances =>
      (if fundamental && vks.isEmpty then Outcome.err .InvalidFundamentalTypesParameters
       else
        inBinders env (vkPairs vks) (fun env' => lowerTys env' fields ⨾ lowerQWCs env' wcs) ⨾
        varianceCheck variances vks.length) ⨾ .ok acc
  | .fnDef _ vks wcs args ret abi variances =>
      -- the argument types are collected into a Result that is only inspected after the
      -- return type has been lowered with `?`
      inBinders env (vkPairs vks) (fun env' =>
          lowerQWCs env' wcs ⨾ inBinders env' [] (fun env'' => lowerTy env'' ret ⨾ lowerTys env'' args)) ⨾
        lowerAbi abi ⨾ varianceCheck variances vks.length ⨾ .ok acc
  | .closure _ vks args ret upvars =>
      inBinders env (vkPairs vks) (fun env' => lowerTy env' ret ⨾ lowerTys env' args) ⨾
        inBinders env (vkPairs vks) (fun env' => lowerTys env' upvars) ⨾ .ok acc
  | .trait _ vks auto wcs assoc =>
      let allParams := selfParam :: vkPairs vks
      inBinders env allParams (fun env' =>
          (if auto then
            (if allParams.length > 1 then Outcome.err .AutoTraitParameters
             else if !wcs.isEmpty then .err .AutoTraitWhereClauses else .ok ())
           else .ok ()) ⨾ lowerQWCs env' wcs) ⨾
        traitAssocIds env rawId assoc ⨾
        lowerAssocDefns env rawId allParams
          { acc with traitData := (rawId, ⟨rawId, allParams.length, auto⟩) :: acc.traitData } assoc
  | .opaqueTy _ vks ty bounds wcs =>
      inBinders env (vkPairs vks) (fun env' =>
          lowerTy env' ty ⨾
          inBinders env' [(fixmeSelf, Kind.ty)] (fun env'' => combineBounds (lowerQIBs env'' bounds)) ⨾
          inBinders env' [(fixmeSelf, Kind.ty)] (fun env'' => lowerQWCs env'' wcs)) ⨾ .ok acc
  | .coroutine name vks upvars resume yield ret witnesses witnessLts =>
      inBinders env (vkPairs vks) (fun env' =>
          lowerTy env' yield ⨾ lowerTy env' resume ⨾ lowerTy env' ret ⨾ lowerTys env' upvars) ⨾
        inBinders env (vkPairs vks) (fun env' =>
          inBinders env' (witnessLts.map fun n => (n, Kind.lt)) (fun env'' => lowerTys env'' witnesses)) ⨾
        (match alookup env.tb.coroutineIds name with
         | some _ => Outcome.ok ()
         | none => .panic .coroutineIdsIndex) ⨾ .ok acc
  | .impl vks positive tr wcs values =>
      ((env.introduce (vkPairs vks)).andThen fun env' =>
          (lowerTraitRef env' tr).andThen fun tid =>
            (if !positive && !values.isEmpty then Outcome.err .NegativeImplAssociatedValues else .ok ()) ⨾
            lowerQWCs env' wcs ⨾ .ok tid).andThen fun tid =>
        implValueIds env .implAssocValueIdsIndex rawId values ⨾
        lowerAssocValues env rawId tid (vkPairs vks) values ⨾ .ok acc
  | .clause c => lowerClause env c ⨾ .ok acc
  | .foreign _ => .ok acc

def lowerItems (env : Env) (rawId : Nat) (acc : Lowered) : List AItem → Outcome Lowered
  | [] => .ok acc
  | it :: rest => (lowerItem env rawId acc it).andThen fun acc' => lowerItems env (rawId + 1) acc' rest

/-- `impl Lower for Program` -/
def lowerProgram (ver : Version) (p : AProgram) : Outcome Lowered :=
  (extractAssoc {} p.length 0 p).andThen fun r =>
    let tb := extractIds r.1 0 p
    lowerItems ⟨ver, tb, []⟩ 0 { tb := tb } p

/-! ## `lower_goal` -/

/-- rebuilds `associated_ty_lookups` from the lowered program (lowering.rs:1033-1047) -/
def rebuildAssocLookups (traitData : List (Nat × TraitDatum)) :
    List (Nat × AssocTyDatum) → Outcome (List ((Nat × String) × AssocLookup))
  | [] => .ok []
  | (id, d) :: rest =>
      match alookup traitData d.traitId with
      | none => .panic .lowerGoalTraitDataIndex
      | some td =>
          if td.nBinders > d.binders.length then .panic .lowerGoalBindersSlice
          else
            (rebuildAssocLookups traitData rest).andThen fun m =>
              .ok (((d.traitId, d.name), ⟨id, d.binders.drop td.nBinders⟩) :: m)

/-- `lower_goal(goal, program)` -/
def lowerGoalTop (ver : Version) (prog : Lowered) (g : AGoal) : Outcome Unit :=
  (rebuildAssocLookups prog.traitData prog.assocTyData).andThen fun lookups =>
    lowerGoal
      ⟨ver, { prog.tb with assocLookups := lookups,
                           autoTraits := prog.traitData.map fun (id, d) => (id, d.auto) }, []⟩ g

/-- the two entry points in sequence, as the harness runs them -/
def lowerBoth (ver : Version) (p : AProgram) (g : Option AGoal) : Outcome Unit × Option (Outcome Unit) :=
  match lowerProgram ver p, g with
  | .ok prog, some g => (.ok (), some (lowerGoalTop ver prog g))
  | r, _ => (r.void, none)

end Chalk.Resolve
