/-
  C03 (content): what the answers enumerated by `solve_multiple` must satisfy, as an executable
  acceptance predicate over the certified Stage-A evaluator (same pattern as Contract.lean).
-/
import ChalkModel.Compat

namespace Chalk.Sem

inductive EnumVerdict where
  | accepted (stage : String)
  | notSound (i : Nat) (σ : List Tm)
  | duplicate (i j : Nat)
  | misses (θ : List Tm)
  | inconclusive (why : String)

/-- the i-th enumerated answer, instantiated generically, must hold -/
def firstUnsound (P : Program) (fuel : Nat) (g : Goal) : List (List Tm) → Nat → Option (Nat × List Tm × Verdict)
  | [], _ => none
  | σ :: rest, i =>
      match evalGoal P fuel [] (g.inst (fun k => (σ.getD k (.var k)).inst genericSubst)) with
      | .yes => firstUnsound P fuel g rest (i + 1)
      | v => some (i, σ, v)

/-- two answers that are instances of each other are the same answer up to renaming -/
def sameAnswer (σ τ : List Tm) : Bool := isInstance τ (generic σ) && isInstance σ (generic τ)

def firstDuplicate : List (List Tm) → Nat → Option (Nat × Nat)
  | [], _ => none
  | σ :: rest, i =>
      match rest.findIdx? (sameAnswer σ) with
      | some j => some (i, i + 1 + j)
      | none => firstDuplicate rest (i + 1)

/-- `complete` = the stream ended with "no more solutions" -/
def judgeEnumeration (P : Program) (fuel : Nat) (g : Goal) (cands : List (List Tm)) (answers : List (List Tm))
    (complete : Bool) : EnumVerdict :=
  match firstUnsound P fuel g answers 0 with
  | some (i, σ, .no) => .notSound i σ
  | some (_, _, _) => .inconclusive "generic-instance-undecided"
  | none =>
    match firstDuplicate answers 0 with
    | some (i, j) => .duplicate i j
    | none =>
      if complete then
        match (solutionsAmong P fuel g cands).filter (fun θ => !(answers.any fun σ => isInstance σ θ)) with
        | θ :: _ => .misses θ
        | [] => .accepted "sound+nodup+complete:bounded"
      else .accepted "sound+nodup"

end Chalk.Sem
