/-
  Driver op of the logging model (C23):
    (judge-restricted <program> <goal> <fuel> <answer>)
  judges a solver answer for a ground goal against the program *restricted to what the goal
  needs* (`Logging.restrict P (Logging.needs P g)`), i.e. against the model of a log; by
  `C23.restrict_needs` the restricted program has the same meaning for the goal as the original.
  Responses as for `judge-ground`.
-/
import ChalkModel.OpsSem
import ChalkModel.Logging

namespace Chalk.Logging
open Chalk Chalk.Sexp Chalk.Sem

def opsLogging : Sexp → Option Sexp
  | .list [.atom "judge-restricted", p, g, fuel, ans] => do
      let P ← programOfSexp? p
      let g ← goalOfSexp? g
      let Q := restrict P (needs P g)
      some (judgeGround (evalGoal Q (← fuel.nat?) [] g) (groundAnswerOfSexp ans))
  | _ => none

end Chalk.Logging
