/-
  Executable model of chalk's program writer (`chalk-solve/src/display.rs`,
  `display/{items,ty,bounds,identifiers,state}.rs`) for the item fragment
  {struct/enum declarations, traits with associated types, impls with associated type values}
  over the type fragment {ADT application, scalars, tuples, `&`/`&mut`, raw pointers, slices, arrays,
  fn pointers with `for<..>`, projections, `dyn`, `!`, `str`, bound variables}.

  The writer produces text; the model produces the *token list* of that text (white space is
  immaterial to the parser).  Tokens are structured (`Tok`): keywords/punctuation, item names,
  the canonical variable names `_d_i` / `'_d_i` / `Self` that `InternalWriterState` invents
  (`InvertedBoundVar`), numbers and the indexed names `field_i` / `variant_i`.  `Tok.str` is the
  text of a token; the harness compares `Tok.str` of every model token with the tokenisation of
  the real writer's output.

  Two layers:
  * layer 1 (`occ*`, `aliases`): the order in which `alias_for_id_name` / `alias_for_adt_id_name`
    are called while the items are written, and the resulting disambiguated names (`Foo`, `Foo_1`, …)
    of `IdAliasStore` (state.rs);
  * layer 2 (`print*`): the `RenderAsRust` impls with the `InternalWriterState` discipline
    (`add_debrujin_index`, `add_parameter_mapping`, `self_mapping`), over names that are already final.

  Item and variable ids are strings (keys such as `a3`/`d7` on the wire, final names after layer 1).
  This file imports nothing.
-/
namespace Chalk.Display

/-- `VariableKind` as far as `binder_var_display` distinguishes it -/
inductive VK where
  | ty | lt | ct
  deriving DecidableEq, Repr, Inhabited

inductive Scalar where
  | bool | char
  | isize | i8 | i16 | i32 | i64 | i128
  | usize | u8 | u16 | u32 | u64 | u128
  | f16 | f32 | f64 | f128
  deriving DecidableEq, Repr, Inhabited

/-- `impl RenderAsRust for Scalar` (ty.rs) -/
def Scalar.name : Scalar → String
  | .bool => "bool" | .char => "char"
  | .isize => "isize" | .i8 => "i8" | .i16 => "i16" | .i32 => "i32" | .i64 => "i64" | .i128 => "i128"
  | .usize => "usize" | .u8 => "u8" | .u16 => "u16" | .u32 => "u32" | .u64 => "u64" | .u128 => "u128"
  | .f16 => "f16" | .f32 => "f32" | .f64 => "f64" | .f128 => "f128"

def Scalar.all : List Scalar :=
  [.bool, .char, .isize, .i8, .i16, .i32, .i64, .i128, .usize, .u8, .u16, .u32, .u64, .u128, .f16, .f32, .f64, .f128]

/-- tokens of the writer's output -/
inductive Tok where
  /-- keyword or punctuation, verbatim -/
  | kw (s : String)
  /-- an item name (ADT, trait, associated type) after disambiguation -/
  | name (s : String)
  /-- `_d_i`: `InvertedBoundVar` of a type or const variable -/
  | var (d i : Nat)
  /-- `'_d_i` -/
  | ltVar (d i : Nat)
  /-- `Self` -/
  | self
  /-- a constant value -/
  | num (n : Nat)
  /-- `field_i`, `variant_i` -/
  | idx (pre : String) (i : Nat)
  deriving DecidableEq, Repr, Inhabited

def Tok.str : Tok → String
  | .kw s => s
  | .name s => s
  | .var d i => "_" ++ toString d ++ "_" ++ toString i
  | .ltVar d i => "'_" ++ toString d ++ "_" ++ toString i
  | .self => "Self"
  | .num n => toString n
  | .idx p i => p ++ "_" ++ toString i

inductive Lt where
  | bound (d i : Nat)
  | static
  | erased
  deriving DecidableEq, Repr, Inhabited

inductive Ct where
  | bound (d i : Nat)
  | val (n : Nat)
  deriving DecidableEq, Repr, Inhabited

mutual
  inductive Ty where
    /-- `TyKind::Adt` -/
    | adt (id : String) (args : Args)
    | scalar (s : Scalar)
    /-- `TyKind::Tuple`; the arity is the length -/
    | tuple (ts : Tys)
    /-- `TyKind::Ref` -/
    | ref (mutable : Bool) (l : Lt) (t : Ty)
    /-- `TyKind::Raw` -/
    | raw (mutable : Bool) (t : Ty)
    | slice (t : Ty)
    | array (t : Ty) (len : Ct)
    /-- `TyKind::Function`: `num_binders` lifetimes, argument types, return type -/
    | fnPtr (nb : Nat) (args : Tys) (ret : Ty)
    /-- `AliasTy::Projection`, already split (`split_projection`): `<self as tr<targs>>::assoc<aargs>` -/
    | proj (tr assoc : String) (self : Ty) (targs aargs : Args)
    /-- `TyKind::Dyn`: bounds on `Self` (under the `dyn` binder), lifetime (outside of it) -/
    | dyn (bs : Bounds) (l : Lt)
    | never
    | str
    /-- `TyKind::BoundVar` -/
    | bound (d i : Nat)
  inductive GArg where
    | ty (t : Ty)
    | lt (l : Lt)
    | ct (c : Ct)
  inductive Args where
    | nil
    | cons (a : GArg) (as : Args)
  inductive Tys where
    | nil
    | cons (t : Ty) (ts : Tys)
  /-- a quantified bound on `Self` (`dyn` bounds: quantified where-clauses whose self type is the
      `dyn` binder's variable; associated-type bounds: `QuantifiedInlineBound`) -/
  inductive Bound where
    /-- `forall<ks> tr<args>` -/
    | trait (ks : List VK) (tr : String) (args : Args)
    /-- `forall<ks> tr<targs, assoc<aargs> = v>` -/
    | aliasEq (ks : List VK) (tr assoc : String) (targs aargs : Args) (v : Ty)
  inductive Bounds where
    | nil
    | cons (b : Bound) (bs : Bounds)
end

deriving instance Repr for Ty, GArg, Args, Tys, Bound, Bounds
deriving instance DecidableEq for Ty, GArg, Args, Tys, Bound, Bounds
instance : Inhabited Ty := ⟨.never⟩
instance : Inhabited Args := ⟨.nil⟩
instance : Inhabited Tys := ⟨.nil⟩
instance : Inhabited Bounds := ⟨.nil⟩

def Args.toList : Args → List GArg
  | .nil => []
  | .cons a as => a :: as.toList
def Args.ofList : List GArg → Args
  | [] => .nil
  | a :: as => .cons a (Args.ofList as)
def Tys.toList : Tys → List Ty
  | .nil => []
  | .cons a as => a :: as.toList
def Tys.ofList : List Ty → Tys
  | [] => .nil
  | a :: as => .cons a (Tys.ofList as)
def Bounds.toList : Bounds → List Bound
  | .nil => []
  | .cons a as => a :: as.toList
def Bounds.ofList : List Bound → Bounds
  | [] => .nil
  | a :: as => .cons a (Bounds.ofList as)
def Tys.length : Tys → Nat
  | .nil => 0
  | .cons _ ts => ts.length + 1

/-- `WhereClause` -/
inductive WC where
  /-- `self: tr<args>` (args without the self type) -/
  | implemented (self : Ty) (tr : String) (args : Args)
  /-- `self: tr<targs, assoc<aargs> = v>` -/
  | aliasEq (self : Ty) (tr assoc : String) (targs aargs : Args) (v : Ty)
  | ltOutlives (a b : Lt)
  | tyOutlives (t : Ty) (l : Lt)
  deriving Repr, Inhabited, DecidableEq

/-- `QuantifiedWhereClause = Binders<WhereClause>` -/
structure QWC where
  ks : List VK
  wc : WC
  deriving Repr, Inhabited, DecidableEq

/-- `AdtDatum` with `AdtFlags`, `AdtRepr`, `AdtSizeAlign` -/
structure AdtDatum where
  name : String
  upstream : Bool
  fundamental : Bool
  phantomData : Bool
  oneZst : Bool
  reprC : Bool
  reprPacked : Bool
  reprInt : Option Scalar
  isEnum : Bool
  kinds : List VK
  wcs : List QWC
  /-- fields of each variant (a struct has exactly one variant) -/
  vfields : List (List Ty)
  deriving Repr, Inhabited, DecidableEq

/-- `AssociatedTyDatum`; `kinds` = the trait's binders (with `Self`) followed by its own -/
structure AssocTyDatum where
  name : String
  kinds : List VK
  bounds : List Bound
  wcs : List QWC
  deriving Repr, Inhabited, DecidableEq

/-- `TraitDatum` with `TraitFlags`; `kinds` includes `Self` first -/
structure TraitDatum where
  name : String
  auto : Bool
  marker : Bool
  upstream : Bool
  fundamental : Bool
  nonEnumerable : Bool
  coind : Bool
  objectSafe : Bool
  /-- the word inside `#[lang(..)]` -/
  wellKnown : Option String
  kinds : List VK
  wcs : List QWC
  assocs : List AssocTyDatum
  deriving Repr, Inhabited, DecidableEq

/-- `AssociatedTyValue`; `kinds` = the impl's binders followed by its own -/
structure AssocTyValue where
  assoc : String
  kinds : List VK
  value : Ty
  deriving Repr, Inhabited, DecidableEq

/-- `ImplDatum` (`args`: trait arguments without the self type) -/
structure ImplDatum where
  external : Bool
  kinds : List VK
  negative : Bool
  tr : String
  args : Args
  selfTy : Ty
  wcs : List QWC
  values : List AssocTyValue
  deriving Repr, Inhabited, DecidableEq

inductive Item where
  | adt (d : AdtDatum)
  | trait (d : TraitDatum)
  | impl (d : ImplDatum)
  deriving Repr, Inhabited, DecidableEq

abbrev Program := List Item

/-! ## `InternalWriterState` (state.rs) -/

structure St where
  /-- `debrujin_indices_deep` -/
  deep : Nat
  /-- `remapping` (later additions shadow earlier ones: they are put in front) -/
  remap : List ((Nat × Nat) × (Nat × Nat))
  /-- `self_mapping` -/
  self? : Option (Nat × Nat)
  deriving Repr, Inhabited

def St.init : St := ⟨0, [], none⟩

/-- `add_debrujin_index(self_binding)` -/
def St.deeper (s : St) (selfIdx : Option Nat) : St :=
  { deep := s.deep + 1, remap := s.remap,
    self? := match selfIdx with
      | some i => some (s.deep + 1, i)
      | none => s.self? }

/-- `invert_debrujin_idx`: closed items only (the Rust code computes in `i64`) -/
def St.inv (s : St) (d i : Nat) : Nat × Nat := (s.deep - d, i)

def lookupPair (v : Nat × Nat) : List ((Nat × Nat) × (Nat × Nat)) → Option (Nat × Nat)
  | [] => none
  | (k, w) :: rest => if k = v then some w else lookupPair v rest

/-- `apply_mappings` for a type/const variable -/
def St.varTok (s : St) (v : Nat × Nat) : Tok :=
  let r := (lookupPair v s.remap).getD v
  if s.self? = some r then .self else .var r.1 r.2

/-- `apply_mappings` behind a `'` -/
def St.ltTok (s : St) (v : Nat × Nat) : Tok :=
  let r := (lookupPair v s.remap).getD v
  if s.self? = some r then .kw "'Self" else .ltVar r.1 r.2

/-- `add_parameter_mapping` -/
def St.addMapping (s : St) (lowered original : List (Nat × Nat)) : St :=
  { s with remap := lowered.zip original ++ s.remap }

/-- `binder_var_indices`: the variables a binder list introduces at the current depth -/
def St.binderIndices (s : St) (n : Nat) : List (Nat × Nat) := (List.range n).map fun i => (s.deep, i)

def sepBy (sep : List Tok) : List (List Tok) → List Tok
  | [] => []
  | [x] => x
  | x :: rest => x ++ sep ++ sepBy sep rest

def comma : List Tok := [.kw ","]

/-- `binder_var_display` of the binders `ks`, starting at index `from` -/
def St.binderNamesFrom (s : St) : Nat → List VK → List (List Tok)
  | _, [] => []
  | i, k :: ks =>
      (match k with
        | .ty => [s.varTok (s.deep, i)]
        | .lt => [s.ltTok (s.deep, i)]
        | .ct => [.kw "const", s.varTok (s.deep, i)]) :: s.binderNamesFrom (i + 1) ks

def St.binderNames (s : St) (ks : List VK) : List (List Tok) := s.binderNamesFrom 0 ks

/-- `write_joined_non_empty_list!(f, "<{}>", xs, ", ")` -/
def angle (xs : List (List Tok)) : List Tok :=
  if xs.isEmpty then [] else .kw "<" :: sepBy comma xs ++ [.kw ">"]

/-- `forall<..> ` in front of a quantified clause -/
def forallToks (s : St) (ks : List VK) : List Tok :=
  if ks.isEmpty then [] else .kw "forall" :: .kw "<" :: sepBy comma (s.binderNames ks) ++ [.kw ">"]

def printLt (s : St) : Lt → List Tok
  | .bound d i => [s.ltTok (s.inv d i)]
  | .static => [.kw "'static"]
  | .erased => [.kw "'erased"]

def printCt (s : St) : Ct → List Tok
  | .bound d i => [s.varTok (s.inv d i)]
  | .val n => [.num n]

def fnBinderNames (s : St) : Nat → Nat → List (List Tok)
  | _, 0 => []
  | i, n + 1 => [s.ltTok (s.deep, i)] :: fnBinderNames s (i + 1) n

mutual
  /-- `impl RenderAsRust for TyKind` / `ProjectionTy` / `FnPointer` (ty.rs) -/
  def printTy (s : St) : Ty → List Tok
    | .adt id args => .name id :: printAngleArgs s args
    | .scalar sc => [.kw sc.name]
    | .tuple ts => .kw "(" :: printTys s ts ++ (if ts.length = 1 then [.kw ","] else []) ++ [.kw ")"]
    | .ref m l t => .kw "&" :: printLt s l ++ (if m then [.kw "mut"] else []) ++ printTy s t
    | .raw m t => .kw "*" :: .kw (if m then "mut" else "const") :: printTy s t
    | .slice t => .kw "[" :: printTy s t ++ [.kw "]"]
    | .array t c => .kw "[" :: printTy s t ++ .kw ";" :: printCt s c ++ [.kw "]"]
    | .fnPtr nb args ret =>
        (if nb = 0 then [] else
          .kw "for" :: .kw "<" :: sepBy comma (fnBinderNames (s.deeper none) 0 nb) ++ [.kw ">"])
        ++ .kw "fn" :: .kw "(" :: printTys (s.deeper none) args ++ .kw ")" :: .kw "->" :: printTy (s.deeper none) ret
    | .proj tr assoc self targs aargs =>
        .kw "<" :: printTy s self ++ .kw "as" :: .name tr :: printAngleArgs s targs
          ++ .kw ">" :: .kw "::" :: .name assoc :: printAngleArgs s aargs
    | .dyn bs l => .kw "dyn" :: printBounds (s.deeper none) bs ++ .kw "+" :: printLt s l
    | .never => [.kw "!"]
    | .str => [.kw "str"]
    | .bound d i => [s.varTok (s.inv d i)]
  def printGArg (s : St) : GArg → List Tok
    | .ty t => printTy s t
    | .lt l => printLt s l
    | .ct c => printCt s c
  /-- generic arguments joined by `, ` -/
  def printArgs (s : St) : Args → List Tok
    | .nil => []
    | .cons a as => printGArg s a ++ printArgsTail s as
  def printArgsTail (s : St) : Args → List Tok
    | .nil => []
    | .cons a as => .kw "," :: printGArg s a ++ printArgsTail s as
  /-- `<args>` or nothing -/
  def printAngleArgs (s : St) : Args → List Tok
    | .nil => []
    | .cons a as => .kw "<" :: printGArg s a ++ printArgsTail s as ++ [.kw ">"]
  def printTys (s : St) : Tys → List Tok
    | .nil => []
    | .cons t ts => printTy s t ++ printTysTail s ts
  def printTysTail (s : St) : Tys → List Tok
    | .nil => []
    | .cons t ts => .kw "," :: printTy s t ++ printTysTail s ts
  /-- one bound of `display_self_where_clauses_as_bounds` / `QuantifiedInlineBound`; the caller's
      state is the one *outside* the bound's own binders -/
  def printBound (s : St) : Bound → List Tok
    | .trait ks tr args => forallToks (s.deeper none) ks ++ .name tr :: printAngleArgs (s.deeper none) args
    | .aliasEq ks tr assoc targs aargs v =>
        forallToks (s.deeper none) ks ++ .name tr :: .kw "<" :: printArgsThenComma (s.deeper none) targs
          ++ .name assoc :: printAngleArgs (s.deeper none) aargs ++ .kw "=" :: printTy (s.deeper none) v ++ [.kw ">"]
  /-- `write_joined_non_empty_list!(f, "{}, ", trait_params, ", ")` -/
  def printArgsThenComma (s : St) : Args → List Tok
    | .nil => []
    | .cons a as => printGArg s a ++ printArgsTail s as ++ [.kw ","]
  /-- bounds joined by ` + ` -/
  def printBounds (s : St) : Bounds → List Tok
    | .nil => []
    | .cons b bs => printBound s b ++ printBoundsTail s bs
  def printBoundsTail (s : St) : Bounds → List Tok
    | .nil => []
    | .cons b bs => .kw "+" :: printBound s b ++ printBoundsTail s bs
end

/-- `display_trait_with_assoc_ty_value` for a where-clause -/
def printTraitWithAssoc (s : St) (tr assoc : String) (targs aargs : Args) (v : Ty) : List Tok :=
  .name tr :: .kw "<" :: printArgsThenComma s targs ++ .name assoc :: printAngleArgs s aargs
    ++ .kw "=" :: printTy s v ++ [.kw ">"]

/-- `impl RenderAsRust for WhereClause` (bounds.rs) -/
def printWC (s : St) : WC → List Tok
  | .implemented self tr args => printTy s self ++ .kw ":" :: .name tr :: printAngleArgs s args
  | .aliasEq self tr assoc targs aargs v => printTy s self ++ .kw ":" :: printTraitWithAssoc s tr assoc targs aargs v
  | .ltOutlives a b => printLt s a ++ .kw ":" :: printLt s b
  | .tyOutlives t l => printTy s t ++ .kw ":" :: printLt s l

/-- `impl RenderAsRust for QuantifiedWhereClause` -/
def printQWC (s : St) (q : QWC) : List Tok :=
  forallToks (s.deeper none) q.ks ++ printWC (s.deeper none) q.wc

/-- the `where` part of an item: `\nwhere\n clause,\n clause\n` or a single space -/
def printWhere (s : St) (wcs : List QWC) : List Tok :=
  if wcs.isEmpty then [] else .kw "where" :: sepBy comma (wcs.map (printQWC s))

def attr (w : String) : List Tok := [.kw "#", .kw "[", .kw w, .kw "]"]
def attr1 (w a : String) : List Tok := [.kw "#", .kw "[", .kw w, .kw "(", .kw a, .kw ")", .kw "]"]
def flag (b : Bool) (w : String) : List Tok := if b then attr w else []

def printFieldsFrom (s : St) : Nat → List Ty → List (List Tok)
  | _, [] => []
  | i, t :: ts => (.idx "field" i :: .kw ":" :: printTy s t) :: printFieldsFrom s (i + 1) ts

def printFields (s : St) (fs : List Ty) : List Tok := sepBy comma (printFieldsFrom s 0 fs)

def printVariantsFrom (s : St) : Nat → List (List Ty) → List Tok
  | _, [] => []
  | i, v :: vs => .idx "variant" i :: .kw "{" :: printFields s v ++ .kw "}" :: .kw "," :: printVariantsFrom s (i + 1) vs

/-- `impl RenderAsRust for AdtDatum` (items.rs) -/
def printAdt (d : AdtDatum) : List Tok :=
  let s := St.init.deeper none
  flag d.upstream "upstream" ++ flag d.fundamental "fundamental" ++ flag d.phantomData "phantom_data"
    ++ flag d.oneZst "one_zst"
    ++ (if d.reprC then attr1 "repr" "C" else []) ++ (if d.reprPacked then attr1 "repr" "packed" else [])
    ++ (match d.reprInt with | some sc => attr1 "repr" sc.name | none => [])
    ++ .kw (if d.isEnum then "enum" else "struct") :: .name d.name :: angle (s.binderNames d.kinds)
    ++ printWhere s d.wcs
    ++ .kw "{" :: (if d.isEnum then printVariantsFrom s 0 d.vfields else printFields s (d.vfields.headD []))
    ++ [.kw "}"]

/-- `impl RenderAsRust for AssociatedTyDatum`; `s` is the trait's state, `ntrait` the number of
    the trait's binders (`split_associated_ty_parameters`) -/
def printAssocTy (s : St) (ntrait : Nat) (a : AssocTyDatum) : List Tok :=
  let s1 := s.deeper none
  let s2 := s1.addMapping ((s1.binderIndices a.kinds.length).take ntrait) (s.binderIndices ntrait)
  .kw "type" :: .name a.name :: angle ((s2.binderNames a.kinds).drop ntrait)
    ++ (if a.bounds.isEmpty then [] else .kw ":" :: sepBy [.kw "+"] (a.bounds.map (printBound s2)))
    ++ printWhere s2 a.wcs ++ [.kw ";"]

/-- `impl RenderAsRust for TraitDatum` -/
def printTrait (d : TraitDatum) : List Tok :=
  let s := St.init.deeper (some 0)
  flag d.auto "auto" ++ flag d.marker "marker" ++ flag d.upstream "upstream" ++ flag d.fundamental "fundamental"
    ++ flag d.nonEnumerable "non_enumerable" ++ flag d.coind "coinductive"
    ++ flag d.objectSafe "object_safe"
    ++ (match d.wellKnown with | some w => attr1 "lang" w | none => [])
    ++ .kw "trait" :: .name d.name :: angle ((s.binderNames d.kinds).drop 1)
    ++ printWhere s d.wcs
    ++ .kw "{" :: (d.assocs.map (printAssocTy s d.kinds.length)).flatten ++ [.kw "}"]

/-- `impl RenderAsRust for AssociatedTyValue`; `s` is the impl's state, `nimpl` the number of the
    impl's binders (`split_associated_ty_value_parameters`) -/
def printAssocValue (s : St) (nimpl : Nat) (v : AssocTyValue) : List Tok :=
  let s1 := s.deeper none
  let s2 := s1.addMapping ((s1.binderIndices v.kinds.length).take nimpl) (s.binderIndices nimpl)
  .kw "type" :: .name v.assoc :: angle ((s2.binderNames v.kinds).drop nimpl)
    ++ .kw "=" :: printTy s2 v.value ++ [.kw ";"]

/-- `impl RenderAsRust for ImplDatum` -/
def printImpl (d : ImplDatum) : List Tok :=
  let s := St.init.deeper none
  flag d.external "upstream"
    ++ .kw "impl" :: angle (s.binderNames d.kinds)
    ++ (if d.negative then [.kw "!"] else []) ++ .name d.tr :: printAngleArgs s d.args
    ++ .kw "for" :: printTy s d.selfTy
    ++ printWhere s d.wcs
    ++ .kw "{" :: (d.values.map (printAssocValue s d.kinds.length)).flatten ++ [.kw "}"]

def printItem : Item → List Tok
  | .adt d => printAdt d
  | .trait d => printTrait d
  | .impl d => printImpl d

/-- `write_items` over the items in order -/
def print (p : Program) : List Tok := (p.map printItem).flatten

/-! ## Layer 1: the order of `alias_for_*_name` calls and the `IdAliasStore`

`display_type_with_generics` renders its parameters into a `String` when it is *called*, i.e.
while the arguments of the enclosing `write!` are being built, before anything of that `write!`
is formatted; everything else is formatted lazily from left to right.  The order matters only
for ids that share a name. -/

mutual
  def occTy : Ty → List String
    | .adt id args => id :: occArgs args
    | .scalar _ => []
    | .tuple ts => occTys ts
    | .ref _ _ t => occTy t
    | .raw _ t => occTy t
    | .slice t => occTy t
    | .array t _ => occTy t
    | .fnPtr _ args ret => occTys args ++ occTy ret
    -- `write!(f, "<{} as {}>::{}", self, display_type_with_generics(tr, targs), assoc)`, then aargs
    | .proj tr assoc self targs aargs => occArgs targs ++ occTy self ++ tr :: assoc :: occArgs aargs
    | .dyn bs _ => occBounds bs
    | .never => []
    | .str => []
    | .bound _ _ => []
  def occGArg : GArg → List String
    | .ty t => occTy t
    | .lt _ => []
    | .ct _ => []
  def occArgs : Args → List String
    | .nil => []
    | .cons a as => occGArg a ++ occArgs as
  def occTys : Tys → List String
    | .nil => []
    | .cons t ts => occTy t ++ occTys ts
  def occBound : Bound → List String
    -- display_type_with_generics: parameters first
    | .trait _ tr args => occArgs args ++ [tr]
    -- display_trait_with_assoc_ty_value: lazily, left to right
    | .aliasEq _ tr assoc targs aargs v => tr :: occArgs targs ++ assoc :: occArgs aargs ++ occTy v
  def occBounds : Bounds → List String
    | .nil => []
    | .cons b bs => occBound b ++ occBounds bs
end

def occWC : WC → List String
  -- `write!(f, "{}: {}", self, display_type_with_generics(tr, args))`: args, self, tr
  | .implemented self tr args => occArgs args ++ occTy self ++ [tr]
  | .aliasEq self tr assoc targs aargs v => occTy self ++ tr :: occArgs targs ++ assoc :: occArgs aargs ++ occTy v
  | .ltOutlives _ _ => []
  | .tyOutlives t _ => occTy t

def occQWCs (ws : List QWC) : List String := (ws.map fun q => occWC q.wc).flatten

def occAdt (d : AdtDatum) : List String :=
  d.name :: occQWCs d.wcs ++
    (if d.isEnum then (d.vfields.map fun v => (v.map occTy).flatten).flatten else ((d.vfields.headD []).map occTy).flatten)

def occAssocTy (a : AssocTyDatum) : List String :=
  a.name :: (a.bounds.map occBound).flatten ++ occQWCs a.wcs

def occTrait (d : TraitDatum) : List String :=
  d.name :: occQWCs d.wcs ++ (d.assocs.map occAssocTy).flatten

def occImpl (d : ImplDatum) : List String :=
  -- `full_trait_name = display_type_with_generics(..)` is built first: args, then tr, then self
  occArgs d.args ++ d.tr :: occTy d.selfTy ++ occQWCs d.wcs
    ++ (d.values.map fun v => v.assoc :: occTy v.value).flatten

def occItem : Item → List String
  | .adt d => occAdt d
  | .trait d => occTrait d
  | .impl d => occImpl d

def occProgram (p : Program) : List String := (p.map occItem).flatten

def lookupStr {α} (k : String) : List (String × α) → Option α
  | [] => none
  | (k', v) :: rest => if k' = k then some v else lookupStr k rest

/-- `IdAliasStore`: `aliases` (id ↦ number) and `next_unused_for_name` -/
structure AliasStore where
  aliases : List (String × Nat)
  next : List (String × Nat)
  deriving Repr, Inhabited

/-- `alias_for_id_name(id, name)`: the state after the call -/
def AliasStore.touch (st : AliasStore) (id name : String) : AliasStore :=
  match lookupStr id st.aliases with
  | some _ => st
  | none =>
      let n := (lookupStr name st.next).getD 0
      { aliases := (id, n) :: st.aliases, next := (name, n + 1) :: st.next }

/-- the store after all ids of `occ` have been displayed in order; `base` gives the database's name -/
def aliasesOf (base : String → String) (occ : List String) : AliasStore :=
  occ.foldl (fun st id => st.touch id (base id)) ⟨[], []⟩

/-- the final name of an id: `name` for alias 0, else `name_k` -/
def finalName (base : String → String) (st : AliasStore) (id : String) : String :=
  match lookupStr id st.aliases with
  | some 0 => base id
  | some k => base id ++ "_" ++ toString k
  | none => base id

/-! renaming of every id of a program -/
mutual
  def Ty.rename (f : String → String) : Ty → Ty
    | .adt id args => .adt (f id) (args.rename f)
    | .scalar s => .scalar s
    | .tuple ts => .tuple (ts.rename f)
    | .ref m l t => .ref m l (t.rename f)
    | .raw m t => .raw m (t.rename f)
    | .slice t => .slice (t.rename f)
    | .array t c => .array (t.rename f) c
    | .fnPtr nb args ret => .fnPtr nb (args.rename f) (ret.rename f)
    | .proj tr assoc self targs aargs => .proj (f tr) (f assoc) (self.rename f) (targs.rename f) (aargs.rename f)
    | .dyn bs l => .dyn (bs.rename f) l
    | .never => .never
    | .str => .str
    | .bound d i => .bound d i
  def GArg.rename (f : String → String) : GArg → GArg
    | .ty t => .ty (t.rename f)
    | .lt l => .lt l
    | .ct c => .ct c
  def Args.rename (f : String → String) : Args → Args
    | .nil => .nil
    | .cons a as => .cons (a.rename f) (as.rename f)
  def Tys.rename (f : String → String) : Tys → Tys
    | .nil => .nil
    | .cons t ts => .cons (t.rename f) (ts.rename f)
  def Bound.rename (f : String → String) : Bound → Bound
    | .trait ks tr args => .trait ks (f tr) (args.rename f)
    | .aliasEq ks tr assoc targs aargs v => .aliasEq ks (f tr) (f assoc) (targs.rename f) (aargs.rename f) (v.rename f)
  def Bounds.rename (f : String → String) : Bounds → Bounds
    | .nil => .nil
    | .cons b bs => .cons (b.rename f) (bs.rename f)
end

def WC.rename (f : String → String) : WC → WC
  | .implemented self tr args => .implemented (self.rename f) (f tr) (args.rename f)
  | .aliasEq self tr assoc targs aargs v => .aliasEq (self.rename f) (f tr) (f assoc) (targs.rename f) (aargs.rename f) (v.rename f)
  | .ltOutlives a b => .ltOutlives a b
  | .tyOutlives t l => .tyOutlives (t.rename f) l

def QWC.rename (f : String → String) (q : QWC) : QWC := ⟨q.ks, q.wc.rename f⟩

def Item.rename (f : String → String) : Item → Item
  | .adt d => .adt { d with name := f d.name, wcs := d.wcs.map (QWC.rename f), vfields := d.vfields.map (fun v => v.map (Ty.rename f)) }
  | .trait d => .trait { d with name := f d.name, wcs := d.wcs.map (QWC.rename f), assocs := d.assocs.map (fun a => { a with name := f a.name, bounds := a.bounds.map (Bound.rename f), wcs := a.wcs.map (QWC.rename f) }) }
  | .impl d => .impl { d with tr := f d.tr, args := d.args.rename f, selfTy := d.selfTy.rename f, wcs := d.wcs.map (QWC.rename f), values := d.values.map (fun v => { v with assoc := f v.assoc, value := v.value.rename f }) }

/-- the whole writer: ids are keys, `base` the database's names; layer 1 then layer 2 -/
def writeItems (base : String → String) (p : Program) : List Tok :=
  let st := aliasesOf base (occProgram p)
  print (p.map (Item.rename (finalName base st)))

/-! ## What parsing + lowering does to the printed clauses (lowering.rs)

`T: Foo<Item = U>` lowers to the two clauses `AliasEq(<T as Foo>::Item = U)`, `Implemented(T: Foo)`
(`impl LowerWithEnv for WhereClause`), and a bound `Foo<Item = U>` of a `dyn` type lowers to
`Implemented`, `AliasEq` (`AliasEqBound::into_where_clauses`); inline bounds of associated types
stay as they are. -/

def expandQWC (q : QWC) : List QWC :=
  match q.wc with
  | .aliasEq self tr _ targs _ _ => [q, ⟨q.ks, .implemented self tr targs⟩]
  | _ => [q]

def expandQWCs (ws : List QWC) : List QWC := (ws.map expandQWC).flatten

mutual
  def Ty.expand : Ty → Ty
    | .adt id args => .adt id args.expand
    | .scalar s => .scalar s
    | .tuple ts => .tuple ts.expand
    | .ref m l t => .ref m l t.expand
    | .raw m t => .raw m t.expand
    | .slice t => .slice t.expand
    | .array t c => .array t.expand c
    | .fnPtr nb args ret => .fnPtr nb args.expand ret.expand
    | .proj tr assoc self targs aargs => .proj tr assoc self.expand targs.expand aargs.expand
    | .dyn bs l => .dyn bs.expandDyn l
    | .never => .never
    | .str => .str
    | .bound d i => .bound d i
  def GArg.expand : GArg → GArg
    | .ty t => .ty t.expand
    | .lt l => .lt l
    | .ct c => .ct c
  def Args.expand : Args → Args
    | .nil => .nil
    | .cons a as => .cons a.expand as.expand
  def Tys.expand : Tys → Tys
    | .nil => .nil
    | .cons t ts => .cons t.expand ts.expand
  /-- inside the arguments of a bound -/
  def Bound.expandInner : Bound → Bound
    | .trait ks tr args => .trait ks tr args.expand
    | .aliasEq ks tr assoc targs aargs v => .aliasEq ks tr assoc targs.expand aargs.expand v.expand
  /-- bounds of a `dyn` type: an alias-eq bound brings its trait bound in front -/
  def Bounds.expandDyn : Bounds → Bounds
    | .nil => .nil
    | .cons (.trait ks tr args) bs => .cons (.trait ks tr args.expand) bs.expandDyn
    | .cons (.aliasEq ks tr assoc targs aargs v) bs =>
        .cons (.trait ks tr targs.expand) (.cons (.aliasEq ks tr assoc targs.expand aargs.expand v.expand) bs.expandDyn)
end

def WC.expandTys : WC → WC
  | .implemented self tr args => .implemented self.expand tr args.expand
  | .aliasEq self tr assoc targs aargs v => .aliasEq self.expand tr assoc targs.expand aargs.expand v.expand
  | .ltOutlives a b => .ltOutlives a b
  | .tyOutlives t l => .tyOutlives t.expand l

def reparseQWCs (ws : List QWC) : List QWC := expandQWCs (ws.map fun q => ⟨q.ks, q.wc.expandTys⟩)

/-- the program obtained by parsing and lowering `print p` -/
def Item.reparse : Item → Item
  | .adt d => .adt { d with wcs := reparseQWCs d.wcs, vfields := d.vfields.map (fun v => v.map Ty.expand) }
  | .trait d => .trait { d with wcs := reparseQWCs d.wcs, assocs := d.assocs.map (fun a => { a with bounds := a.bounds.map Bound.expandInner, wcs := reparseQWCs a.wcs }) }
  | .impl d => .impl { d with args := d.args.expand, selfTy := d.selfTy.expand, wcs := reparseQWCs d.wcs, values := d.values.map (fun v => { v with value := v.value.expand }) }

def reparse (p : Program) : Program := p.map Item.reparse

end Chalk.Display
