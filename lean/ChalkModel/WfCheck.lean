/-
  C21: the guarantees well-formedness checking must deliver, checked on a program that the real
  checker ACCEPTED, over a bounded universe of closed types, by the certified evaluator:
  each `Implication` is "if all premises hold for an instantiation then the conclusion holds".
-/
import ChalkModel.Contract

namespace Chalk.Sem

structure Implication where
  nvars : Nat
  premises : List Atom
  conclusion : Atom
  deriving Repr

inductive WfVerdict where
  | accepted (checked inconclusive : Nat)
  /-- implication index and the instantiation for which premises are certified true and the
      conclusion certified false -/
  | rejected (idx : Nat) (θ : List Tm)

def wfStep (P : Program) (fuel : Nat) (imp : Implication) (acc : Option (List Tm) × Nat × Nat) (θ : List Tm) :
    Option (List Tm) × Nat × Nat :=
  match acc with
  | (some w, c, u) => (some w, c, u)
  | (none, c, u) =>
    if imp.premises.all (fun a => evalInd P [] fuel [] (a.inst (listSubst θ)) = .yes) then
      match evalInd P [] fuel [] (imp.conclusion.inst (listSubst θ)) with
      | .no => (some θ, c + 1, u)
      | .yes => (none, c + 1, u)
      | .unknown => (none, c, u + 1)
    else (none, c, u)

def checkImplication (P : Program) (fuel : Nat) (imp : Implication) (pool : List Tm) (maxc : Nat) :
    Option (List Tm) × Nat × Nat :=
  ((assignments pool imp.nvars).take maxc).foldl (wfStep P fuel imp) (none, 0, 0)

def judgeWf (P : Program) (fuel : Nat) (pool : List Tm) (maxc : Nat) : List Implication → Nat → Nat → Nat → WfVerdict
  | [], _, c, u => .accepted c u
  | imp :: rest, i, c, u =>
      match checkImplication P fuel imp pool maxc with
      | (some θ, _, _) => .rejected i θ
      | (none, c', u') => judgeWf P fuel pool maxc rest (i + 1) (c + c') (u + u')

end Chalk.Sem
