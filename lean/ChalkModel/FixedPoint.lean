/-
  FixedPoint.lean — executable model of the recursive solver's generic fixed-point / caching
  framework (C05c, C09, C10, C11, C12).  Imports nothing.

  Rust anchors (mirrored arm by arm, same order of effects):
    chalk-recursive/src/fixed_point.rs        RecursiveContext::{solve_root_goal, solve_goal,
                                              solve_new_subgoal}, Minimums
    chalk-recursive/src/fixed_point/stack.rs  Stack::{push, pop, clear,
                                              mixed_inductive_coinductive_cycle_from},
                                              StackEntry::{flag_cycle, read_and_reset_cycle_flag}
    chalk-recursive/src/fixed_point/search_graph.rs
                                              SearchGraph::{lookup, insert, rollback_to,
                                              move_to_cache, clear}
    chalk-recursive/src/fixed_point/cache.rs  Cache::{insert, get}
    chalk-recursive/src/recursive.rs          initial_value, reached_fixed_point, error_value
    chalk-recursive/src/solve.rs              solve_iteration (should_continue test),
                                              solve_from_clauses (first solution, then combine,
                                              stop at a trivially true solution)
    chalk-recursive/src/fulfill.rs            Fulfill::{fulfill, solve} (obligations are popped from
                                              the END of the vector; `?` on the first NoSolution;
                                              ambiguous obligations retained; the final pass that
                                              proves the retained obligations once more)
    chalk-solve/src/solve.rs                  Solution::combine, is_trivial_and_always_true
    verification hook (cfg chalk_verif)       work counter ticked at every `solve_goal` entry and
                                              at the head of every iteration of the loop in
                                              `solve_new_subgoal`; panics when over budget

  THE ABSTRACTION.  Keys `K` are natural numbers (one per u-canonical goal).  A problem instance
  gives, per goal, its program clauses that could match as a list of alternatives, each a list of
  sub-goals (`deps`), whether the goal is coinductive, and whether it is `ground` (no unknowns).
  Values are `noSolution | unique | ambig`; substitutions are NOT tracked:
    * on a ground goal `unique` is the trivially true solution (`is_trivial_and_always_true`):
      it absorbs in `combine` and ends the clause loop;
    * on a goal with unknowns two successful alternatives are taken to carry different
      substitutions, so they combine to `ambig`, and `unique` is never "trivially true";
    * `Fulfill::fulfill` is modelled as a single round (no sub-goal answer refines another
      sub-goal: exact when sub-goals share no unknown, in particular for ground sub-goals and for
      alternatives with at most one sub-goal);
    * in the final pass of `Fulfill::solve` the test `solution.constrained_subst().is_some()` is
      `v = unique` (exact when every `ambig` is `Ambig(Unknown)`, which holds for ground programs
      under monotone `should_continue` oracles and for the F10 family);
    * `cannot_prove` (truncation by `max_size`, `CannotProve` goals), negative goals (`refute`) and
      clause priorities are outside the abstraction.
  The harness derives instances from what chalk itself reports (the clauses that
  `solve_from_clauses` would try, instantiated against the goal with the real inference table)
  and refuses programs outside the abstraction, see harness/src/ops/fp.rs.

  REPAIRS.  `/repo` was repaired for F3, F7, F10, F16 (see known_findings.json).
  `Cfg.fixF3/F7/F10/F16` select, per defect, the repaired code (`true`, `Cfg.current`) or the code
  as found (`false`, `Cfg.legacy`); the refutations in Props/C10–C12 are stated on `Cfg.legacy`.
    F3  : `interrupted` flag: set when `should_continue()` returned false, reset by
          `solve_root_goal`; an SCC head is promoted to the cache only while it is unset.
    F7  : `solve_root_goal` clears stack and search graph instead of `assert!(stack.is_empty())`.
    F10 : when the loop of `solve_new_subgoal` stops through the ambiguity shortcut with
          `old ≠ new` the search graph is rolled back to `dfn + 1`.
    F16 : the last pass of `Fulfill::solve` propagates `NoSolution` (`?`) instead of `unwrap()`.
  (F21 — `reached_fixed_point` now takes the early exit only for `Ambig(Unknown)`, not for an
  ambiguous answer that carries guidance — is invisible here too: the model's `ambig` is
  `Ambig(Unknown)`.)
  (F12 — the size test on the iteration's answer — is invisible here: the abstract value domain
  has height 2, see the remark at `reachedFixedPoint`.)

  FUEL.  Two parameters, none of them hides a real loop bound:
    * depth `d` of `solveGoal` (structural).  Every nested `solve_new_subgoal` pushes one stack
      entry and `Stack::push` panics at `overflowDepth`, so `d = overflowDepth + 1` (used by
      `solveRootGoal`) is never exhausted; exhaustion is reported as `Site.fuelDepth`.
    * `Cfg.rounds`: iterations of the loop of `solve_new_subgoal` (the only loop of the Rust code
      that is not structurally bounded); exhaustion is `Site.fuelRounds`.  On the abstract value
      domain 3 rounds suffice whenever the iteration is monotone (Props/C09).
-/

namespace Chalk.FixedPoint

/-- `Fallible<Solution<I>>` up to substitutions. -/
inductive V where
  | noSolution | unique | ambig
  deriving DecidableEq, Repr, Inhabited

/-- abstract problem instance -/
structure Instance where
  /-- alternatives × sub-goals: the clauses that could match and their conditions, in the order
      `solve_from_clauses` tries them / `new_with_clause` pushes them -/
  deps : Nat → List (List Nat)
  coind : Nat → Bool
  ground : Nat → Bool

/-- `Minimums { positive }`; `none` is `DepthFirstNumber::MAX`. -/
abbrev Min := Option Nat

/-- `Minimums::update_from` -/
def Min.updateFrom (a b : Min) : Min :=
  match a, b with
  | none, x => x
  | some a, none => some a
  | some a, some b => some (Nat.min a b)

/-- `minimums.positive >= dfn` -/
def Min.ge (m : Min) (dfn : Nat) : Bool :=
  match m with
  | none => true
  | some p => decide (dfn ≤ p)

structure StackEntry where
  coinductiveGoal : Bool
  cycle : Bool
  deriving DecidableEq, Repr

structure Node where
  goal : Nat
  solution : V
  stackDepth : Option Nat
  links : Min
  deriving DecidableEq, Repr

/-- `RecursiveContext` (+ the hook's work counter and the `should_continue` oracle of the
    current root call). `graph` is `SearchGraph.nodes`; `indices` is the inverse map and is
    derived (`lookup`). `cache = none`: caching disabled. -/
structure St where
  stack : List StackEntry
  graph : List Node
  cache : Option (List (Nat × V))
  /-- answers of the next calls of `should_continue`; when used up, `oracleDefault` -/
  oracle : List Bool
  oracleDefault : Bool
  work : Nat
  interrupted : Bool
  deriving DecidableEq, Repr

structure Cfg where
  overflowDepth : Nat
  rounds : Nat
  /-- work budget of the verification hook (`none` = unlimited) -/
  budget : Option Nat
  fixF3 : Bool
  fixF7 : Bool
  fixF10 : Bool
  fixF16 : Bool
  deriving DecidableEq, Repr

def Cfg.current (overflowDepth rounds : Nat) : Cfg := ⟨overflowDepth, rounds, none, true, true, true, true⟩
def Cfg.legacy (overflowDepth rounds : Nat) : Cfg := ⟨overflowDepth, rounds, none, false, false, false, false⟩

/-- where a panic (or, for the last two, the model's fuel) ends a call -/
inductive Site where
  | stackNotEmpty      -- assert!(self.stack.is_empty())            (legacy solve_root_goal)
  | overflow           -- panic!("overflow depth reached")          (Stack::push)
  | budget             -- verif-work-budget-exceeded / injected panic inside a solve
  | unwrapNoSolution   -- self.prove(..).unwrap()                   (Fulfill::solve, last pass)
  | popMismatch        -- assert_eq! "mismatched stack push/pop"    (Stack::pop)
  | insertDup          -- assert!(previous_index.is_none())         (SearchGraph::insert)
  | cacheStackDepth    -- assert!(node.stack_depth.is_none())       (move_to_cache)
  | cacheLinks         -- assert!(node.links.positive >= dfn)       (move_to_cache)
  | index              -- index out of bounds (stack[depth], search_graph[dfn])
  | fuelDepth          -- model fuel, not a behaviour of the code
  | fuelRounds         -- model fuel: the loop of solve_new_subgoal did not stop within Cfg.rounds
  deriving DecidableEq, Repr

/-- outcome of a call: a value, or a panic that unwinds out of the solver; in both cases with the
    `RecursiveContext` as the call left it (there is no unwinding cleanup in the Rust code) -/
inductive Res (α : Type) where
  | ok (a : α) (s : St)
  | panic (site : Site) (s : St)
  deriving Repr

def Res.state {α} : Res α → St
  | .ok _ s => s
  | .panic _ s => s

/-! ### Solution::combine / reached_fixed_point / initial_value / error_value -/

/-- `Solution::combine` on two *successful* results of a goal (`ground` as in the header).
    `a == b → a`; a trivially true solution wins; otherwise `Ambig`. -/
def combine (ground : Bool) (a b : V) : V :=
  match a, b with
  | .unique, .unique => if ground then .unique else .ambig
  | .unique, .ambig => if ground then .unique else .ambig
  | .ambig, .unique => if ground then .unique else .ambig
  | .ambig, .ambig => .ambig
  | .noSolution, x => x          -- not reached: only successful results are combined
  | x, .noSolution => x

/-- `is_trivial_and_always_true` -/
def trivialTrue (ground : Bool) (v : V) : Bool := ground && v == .unique

/-- `reached_fixed_point`: `old == current`, or the current answer is ambiguous ("we can just
    stop, and in fact we *must*").  Remark (F12): in the Rust value domain `Unique σ` carries a
    substitution, the order has infinite ascending chains `Unique(V<^0>) , Unique(V<V<^0>>), …`
    and neither disjunct ever holds; the repaired code turns an oversized `Unique` into `Ambig`. -/
def reachedFixedPoint (old cur : V) : Bool := old == cur || cur == .ambig

/-- `initial_value` -/
def initialValue (co : Bool) : V := if co then .unique else .noSolution

/-- `error_value` -/
def errorValue : V := .noSolution

/-! ### hook: work counter -/

def tick (cfg : Cfg) (s : St) : Res Unit :=
  let s' := { s with work := s.work + 1 }
  match cfg.budget with
  | some b => if b < s'.work then .panic .budget s' else .ok () s'
  | none => .ok () s'

/-! ### should_continue -/

/-- one call of the callback: its answer and the state with the oracle advanced -/
def shouldContinue (s : St) : Bool × St :=
  match s.oracle with
  | [] => (s.oracleDefault, s)
  | b :: rest => (b, { s with oracle := rest })

/-! ### Stack -/

/-- `Stack::push` (the depth of the new entry) -/
def push (cfg : Cfg) (co : Bool) (s : St) : Res Nat :=
  if cfg.overflowDepth ≤ s.stack.length then .panic .overflow s
  else .ok s.stack.length { s with stack := s.stack ++ [⟨co, false⟩] }

/-- `Stack::pop` -/
def pop (depth : Nat) (s : St) : Res Unit :=
  if depth + 1 = s.stack.length then .ok () { s with stack := s.stack.dropLast }
  else .panic .popMismatch s

def setCycle (b : Bool) : Nat → List StackEntry → List StackEntry
  | _, [] => []
  | 0, e :: es => { e with cycle := b } :: es
  | n + 1, e :: es => e :: setCycle b n es

/-- `mixed_inductive_coinductive_cycle_from` -/
def mixedFrom (stack : List StackEntry) (depth : Nat) : Bool :=
  let seg := stack.drop depth
  seg.any (fun e => e.coinductiveGoal) && seg.any (fun e => !e.coinductiveGoal)

/-! ### SearchGraph / Cache -/

def lookupFrom (g : Nat) : List Node → Nat → Option Nat
  | [], _ => none
  | n :: ns, i => if n.goal = g then some i else lookupFrom g ns (i + 1)

/-- `SearchGraph::lookup` -/
def lookup (graph : List Node) (g : Nat) : Option Nat := lookupFrom g graph 0

def updateNode (f : Node → Node) : Nat → List Node → List Node
  | _, [] => []
  | 0, n :: ns => f n :: ns
  | i + 1, n :: ns => n :: updateNode f i ns

/-- `SearchGraph::rollback_to` -/
def rollbackTo (dfn : Nat) (s : St) : St := { s with graph := s.graph.take dfn }

def cacheGet (c : List (Nat × V)) (g : Nat) : Option V :=
  match c with
  | [] => none
  | (k, v) :: rest => if k = g then some v else cacheGet rest g

/-- `Cache::insert` (a hash-map insert: replaces) -/
def cacheInsert (c : List (Nat × V)) (g : Nat) (v : V) : List (Nat × V) :=
  (g, v) :: c.filter (fun kv => kv.1 != g)

/-- the drain loop of `move_to_cache` over the nodes `dfn..` -/
def drainToCache (dfn : Nat) : List Node → List (Nat × V) → Except Site (List (Nat × V))
  | [], c => .ok c
  | n :: ns, c =>
    if n.stackDepth.isSome then .error .cacheStackDepth
    else if !(Min.ge n.links dfn) then .error .cacheLinks
    else drainToCache dfn ns (cacheInsert c n.goal n.solution)

/-- `SearchGraph::move_to_cache` -/
def moveToCache (dfn : Nat) (c : List (Nat × V)) (s : St) : Res Unit :=
  match drainToCache dfn (s.graph.drop dfn) c with
  | .ok c' => .ok () { s with graph := s.graph.take dfn, cache := some c' }
  | .error site => .panic site { s with graph := s.graph.take dfn }

/-! ### Fulfill -/

/-- `solve_goal` as seen from `Fulfill::prove`: goal, `&mut Minimums` in, answer and minimums out -/
abbrev SubSolver := Nat → Min → St → Res (V × Min)

/-- the (single) round of `Fulfill::fulfill` over the obligations in pop order.  `none`: some
    obligation has no solution (`?`); `some r`: the ambiguous obligations, in the order they
    were pushed back. -/
def fulfillRound (rec : SubSolver) : List Nat → List Nat → Min → St → Res (Option (List Nat) × Min)
  | [], retained, m, s => .ok (some retained, m) s
  | c :: rest, retained, m, s =>
    match rec c m s with
    | .panic site s' => .panic site s'
    | .ok (v, m') s' =>
      match v with
      | .noSolution => .ok (none, m') s'
      | .unique => fulfillRound rec rest retained m' s'
      | .ambig => fulfillRound rec rest (retained ++ [c]) m' s'

/-- last pass of `Fulfill::solve` (no definite information was learnt): prove the retained
    obligations again, in pop order, looking for a suggestion; the result is ambiguous either way -/
def suggestPass (cfg : Cfg) (rec : SubSolver) : List Nat → Min → St → Res (V × Min)
  | [], m, s => .ok (.ambig, m) s
  | c :: rest, m, s =>
    match rec c m s with
    | .panic site s' => .panic site s'
    | .ok (v, m') s' =>
      match v with
      | .noSolution =>
        -- legacy: `self.prove(..).unwrap()`; repaired (F16): `self.prove(..)?`
        if cfg.fixF16 then .ok (.noSolution, m') s' else .panic .unwrapNoSolution s'
      | .unique => .ok (.ambig, m') s'
      | .ambig => suggestPass cfg rec rest m' s'

/-- `Fulfill::new_with_clause(..)` + `Fulfill::solve` for one alternative -/
def fulfillSolve (cfg : Cfg) (rec : SubSolver) (alt : List Nat) (m : Min) (s : St) : Res (V × Min) :=
  match fulfillRound rec alt.reverse [] m s with
  | .panic site s' => .panic site s'
  | .ok (none, m') s' => .ok (.noSolution, m') s'
  | .ok (some [], m') s' => .ok (.unique, m') s'
  | .ok (some (r :: rs), m') s' => suggestPass cfg rec (r :: rs).reverse m' s'

/-- the clause loop of `solve_from_clauses` -/
def solveFromClauses (cfg : Cfg) (rec : SubSolver) (ground : Bool) :
    List (List Nat) → Option V → Min → St → Res (V × Min)
  | [], cur, m, s => .ok (cur.getD .noSolution, m) s
  | alt :: rest, cur, m, s =>
    match fulfillSolve cfg rec alt m s with
    | .panic site s' => .panic site s'
    | .ok (r, m') s' =>
      let cur' : Option V :=
        match r with
        | .noSolution => cur
        | sol => some (match cur with | none => sol | some c => combine ground c sol)
      match cur' with
      | some c => if trivialTrue ground c then .ok (c, m') s' else solveFromClauses cfg rec ground rest cur' m' s'
      | none => solveFromClauses cfg rec ground rest cur' m' s'

/-- `solve_iteration` -/
def solveIteration (inst : Instance) (cfg : Cfg) (rec : SubSolver) (g : Nat) (m : Min) (s : St) :
    Res (V × Min) :=
  match shouldContinue s with
  | (false, s1) => .ok (.ambig, m) (if cfg.fixF3 then { s1 with interrupted := true } else s1)
  | (true, s1) => solveFromClauses cfg rec (inst.ground g) (inst.deps g) none m s1

/-! ### RecursiveContext -/

/-- the loop of `solve_new_subgoal`; recursion on the round fuel -/
def solveNewSubgoal (inst : Instance) (cfg : Cfg) (rec : SubSolver) (g depth dfn : Nat) :
    Nat → St → Res Min
  | 0, s => .panic .fuelRounds s
  | r + 1, s =>
    match tick cfg s with
    | .panic site s' => .panic site s'
    | .ok () s0 =>
    match solveIteration inst cfg rec g none s0 with
    | .panic site s' => .panic site s'
    | .ok (cur, m) s1 =>
      match s1.stack[depth]?, s1.graph[dfn]? with
      | some e, some node =>
        if !e.cycle then
          -- None of our subgoals depended on us directly.
          .ok m { s1 with graph := updateNode (fun n => { n with solution := cur }) dfn s1.graph }
        else
          let s2 := { s1 with stack := setCycle false depth s1.stack,
                               graph := updateNode (fun n => { n with solution := cur }) dfn s1.graph }
          let old := node.solution
          if reachedFixedPoint old cur then
            .ok m (if cfg.fixF10 && old != cur then rollbackTo (dfn + 1) s2 else s2)
          else
            solveNewSubgoal inst cfg rec g depth dfn r (rollbackTo (dfn + 1) s2)
      | _, _ => .panic .index s1

/-- `solve_goal`; recursion on the depth fuel -/
def solveGoal (inst : Instance) (cfg : Cfg) : Nat → SubSolver
  | 0, _, _, s => .panic .fuelDepth s
  | d + 1, g, m, s =>
    match tick cfg s with
    | .panic site s' => .panic site s'
    | .ok () s =>
    -- First check the cache.
    match (match s.cache with | some c => cacheGet c g | none => none) with
    | some v => .ok (v, m) s
    | none =>
    -- Next, check if the goal is in the search tree already.
    match lookup s.graph g with
    | some dfn =>
      match s.graph[dfn]? with
      | none => .panic .index s
      | some node =>
        match node.stackDepth with
        | some depth =>
          if s.stack.length ≤ depth then .panic .index s else
          let s1 := { s with stack := setCycle true depth s.stack }
          if mixedFrom s1.stack depth then .ok (errorValue, m) s1
          else .ok (node.solution, Min.updateFrom m node.links) s1
        | none => .ok (node.solution, Min.updateFrom m node.links) s
    | none =>
      let co := inst.coind g
      match push cfg co s with
      | .panic site s' => .panic site s'
      | .ok depth s1 =>
      let dfn := s1.graph.length
      -- SearchGraph::insert (the goal is not in the graph: `lookup` just failed)
      let s2 := { s1 with graph := s1.graph ++ [⟨g, initialValue co, some depth, some dfn⟩] }
      match solveNewSubgoal inst cfg (solveGoal inst cfg d) g depth dfn cfg.rounds s2 with
      | .panic site s' => .panic site s'
      | .ok sub s3 =>
      let s4 := { s3 with graph := updateNode (fun n => { n with links := sub, stackDepth := none }) dfn s3.graph }
      match pop depth s4 with
      | .panic site s' => .panic site s'
      | .ok () s5 =>
      let m' := Min.updateFrom m sub
      match s5.graph[dfn]? with
      | none => .panic .index s5
      | some node =>
        let result := node.solution
        if Min.ge sub dfn then
          match s5.cache with
          | some c =>
            if cfg.fixF3 && s5.interrupted then .ok (result, m') (rollbackTo dfn s5)
            else
              match moveToCache dfn c s5 with
              | .panic site s' => .panic site s'
              | .ok () s6 => .ok (result, m') s6
          | none => .ok (result, m') (rollbackTo dfn s5)
        else .ok (result, m') s5

/-- `solve_root_goal` -/
def solveRootGoal (inst : Instance) (cfg : Cfg) (g : Nat) (s : St) : Res V :=
  if !cfg.fixF7 && !s.stack.isEmpty then .panic .stackNotEmpty s else
  let s0 := if cfg.fixF7 then { s with stack := [], graph := [] } else s
  let s1 := if cfg.fixF3 then { s0 with interrupted := false } else s0
  match solveGoal inst cfg (cfg.overflowDepth + 1) g none s1 with
  | .ok (v, _) s' => .ok v s'
  | .panic site s' => .panic site s'

/-! ### Drivers: a solver instance answering a sequence of root goals -/

/-- `RecursiveContext::new` -/
def St.fresh (cachingEnabled : Bool) : St :=
  ⟨[], [], if cachingEnabled then some [] else none, [], true, 0, false⟩

/-- one call of `Solver::solve_limited`: the callback answers `oracle` then `dflt`; the hook's
    counter is reset and the budget installed -/
structure Call where
  goal : Nat
  oracle : List Bool := []
  dflt : Bool := true
  budget : Option Nat := none
  deriving Repr

inductive Outcome where
  | value (v : V)
  | panic (site : Site)
  deriving DecidableEq, Repr

def Res.outcome : Res V → Outcome
  | .ok v _ => .value v
  | .panic site _ => .panic site

def runCall (inst : Instance) (cfg : Cfg) (c : Call) (s : St) : Res V :=
  solveRootGoal inst { cfg with budget := c.budget } c.goal
    { s with oracle := c.oracle, oracleDefault := c.dflt, work := 0 }

/-- the state after a history of calls (panics included: the instance is kept) -/
def runHistory (inst : Instance) (cfg : Cfg) : List Call → St → St
  | [], s => s
  | c :: cs, s => runHistory inst cfg cs (runCall inst cfg c s).state

/-- outcomes of a history, in order -/
def outcomes (inst : Instance) (cfg : Cfg) : List Call → St → List Outcome
  | [], _ => []
  | c :: cs, s =>
    let r := runCall inst cfg c s
    r.outcome :: outcomes inst cfg cs r.state

/-- plain `Solver::solve` of goal `g` -/
def Call.plain (g : Nat) : Call := { goal := g }

/-- answer of a plain solve on a state -/
def solveOn (inst : Instance) (cfg : Cfg) (g : Nat) (s : St) : Outcome :=
  (runCall inst cfg (Call.plain g) s).outcome

/-- the cache as the hook reports it: sorted by key (insertion sort), `none` if disabled -/
def insertSorted (kv : Nat × V) : List (Nat × V) → List (Nat × V)
  | [] => [kv]
  | x :: xs => if kv.1 ≤ x.1 then kv :: x :: xs else x :: insertSorted kv xs

def cacheDump (s : St) : List (Nat × V) :=
  match s.cache with
  | none => []
  | some c => c.foldr insertSorted []

/-! ### the Boolean restriction -/

/-- an instance on which the value `ambig` cannot arise without interruption: all goals ground
    (the Boolean abstraction `noSolution < unique` of DESIGN C05) -/
def Instance.boolean (inst : Instance) (n : Nat) : Bool :=
  (List.range n).all (fun g => inst.ground g)

/-- instance from a table: entry `g` = (coinductive, ground, alternatives) -/
def Instance.ofTable (t : List (Bool × Bool × List (List Nat))) : Instance where
  deps g := match t[g]? with | some (_, _, a) => a | none => []
  coind g := match t[g]? with | some (c, _, _) => c | none => false
  ground g := match t[g]? with | some (_, gr, _) => gr | none => true

end Chalk.FixedPoint
