/- Driver op for C08 (built-in traits): decode the program (constructor table, ADT declarations,
   explicit impls) and the goal, run `Builtin.decideGoal`, print `yes` / `no` / `unknown`.
   No model logic here.

   `(builtin <ctors> <adts> <impls> <trait> <ty> <fuel>)`
   ctors = `((name kind) ..)`, kind = `(adt id) | scalar | tuple | array | slice | ref | raw | fnptr |
           str | never | dyn | fndef | other`; unlisted symbols are `other`
   adts  = `((id struct (ty ..)) | (id enum ((ty ..) ..)) | (id union (ty ..)) ..)`
   impls = `((impl trait self ((trait ty) ..)) ..)`
   trait = `sized | copy | clone | tuple | fnptr`;  ty = `(app name ty ..) | (var i)` -/
import ChalkModel.Wire
import ChalkModel.OpsSem
import ChalkModel.Builtin

namespace Chalk.Builtin
open Chalk Chalk.Sexp Chalk.Sem

def traitOfSexp? : Sexp → Option Trait
  | .atom "sized" => some .sized
  | .atom "copy" => some .copy
  | .atom "clone" => some .clone
  | .atom "tuple" => some .tuple
  | .atom "fnptr" => some .fnPtr
  | _ => none

def ctorOfSexp? : Sexp → Option Ctor
  | .list [.atom "adt", id] => do some (.adt (← id.nat?))
  | .atom "scalar" => some .scalar
  | .atom "tuple" => some .tuple
  | .atom "array" => some .array
  | .atom "slice" => some .slice
  | .atom "ref" => some .ref
  | .atom "raw" => some .raw
  | .atom "fnptr" => some .fnPtr
  | .atom "str" => some .str
  | .atom "never" => some .never
  | .atom "dyn" => some .dyn
  | .atom "fndef" => some .fnDef
  | .atom "other" => some .other
  | _ => none

def tmList? : Sexp → Option (List Tm)
  | .list xs => xs.mapM tmOfSexp?
  | _ => none

def adtDeclOfSexp? : Sexp → Option (Nat × AdtDecl)
  | .list [id, .atom "struct", fs] => do some (← id.nat?, .struct (← tmList? fs))
  | .list [id, .atom "union", fs] => do some (← id.nat?, .union (← tmList? fs))
  | .list [id, .atom "enum", .list vs] => do some (← id.nat?, .enum (← vs.mapM tmList?))
  | _ => none

def implOfSexp? : Sexp → Option Impl
  | .list [.atom "impl", tr, self, .list wcs] => do
      let ws ← wcs.mapM fun
        | .list [t, ty] => do some (← traitOfSexp? t, ← tmOfSexp? ty)
        | _ => none
      some ⟨← traitOfSexp? tr, ← tmOfSexp? self, ws⟩
  | _ => none

def programOfSexp? (ctors adts impls : Sexp) : Option Program :=
  match ctors, adts, impls with
  | .list cs, .list ds, .list is => do
      let ctab ← cs.mapM fun
        | .list [.atom n, k] => do some (n, ← ctorOfSexp? k)
        | _ => none
      let dtab ← ds.mapM adtDeclOfSexp?
      let ims ← is.mapM implOfSexp?
      some ⟨fun n => ((ctab.find? (·.1 == n)).map (·.2)).getD .other,
            fun id => ((dtab.find? (·.1 == id)).map (·.2)).getD (.struct []),
            ims⟩
  | _, _, _ => none

def opsBuiltin : Sexp → Option Sexp
  | .list [.atom "builtin", ctors, adts, impls, tr, ty, fuel] => do
      let P ← programOfSexp? ctors adts impls
      some (Verdict.toSexp (decideGoal P (← fuel.nat?) ⟨← traitOfSexp? tr, ← tmOfSexp? ty⟩))
  | _ => none

end Chalk.Builtin
