/-
  C28: when is a returned solution a well-formed answer for its query?
  `wfAnswer` is the executable predicate evaluated on every real solver output.
-/
import ChalkModel.Aggregate

namespace Chalk

def GArg.hasKind : GArg → VarKind → Bool
  | .ty _, .ty _ => true
  | .lt _, .lt => true
  | .ct _, .const _ => true
  | _, _ => false

def kindsMatch : List VarKind → List GArg → Bool
  | [], [] => true
  | k :: ks, a :: as => a.hasKind k && kindsMatch ks as
  | _, _ => false

def Lifetime.okIn (us : List Nat) (nu outer : Nat) : Lifetime → Bool
  | .bound db idx => db < outer || (db == outer && (match us[idx]? with | some u => decide (u < nu) | none => false))
  | .infer _ => false
  | .placeholder ui _ => ui < nu
  | _ => true

def ConstValue.okIn (us : List Nat) (nu outer : Nat) : ConstValue → Bool
  | .bound db idx => db < outer || (db == outer && (match us[idx]? with | some u => decide (u < nu) | none => false))
  | .infer _ => false
  | .placeholder ui _ => ui < nu
  | .concrete _ => true

mutual
  /-- every variable is bound by the answer's own binders (whose universes are `us`) and that binder
      lives in a universe `< nu`; no inference variables; only placeholders of universes `< nu` -/
  def Ty.okIn (us : List Nat) (nu outer : Nat) : Ty → Bool
    | .app _ args => args.okIn us nu outer
    | .scalar _ => true | .str => true | .never => true | .foreign _ => true | .error => true
    | .array t c => t.okIn us nu outer && c.okIn us nu outer
    | .slice t => t.okIn us nu outer
    | .raw _ t => t.okIn us nu outer
    | .ref _ l t => l.okIn us nu outer && t.okIn us nu outer
    | .placeholder ui _ => ui < nu
    | .dyn _ bounds l => bounds.okIn us nu (outer + 1) && l.okIn us nu outer
    | .proj _ args => args.okIn us nu outer
    | .opaque _ args => args.okIn us nu outer
    | .function _ _ args => args.okIn us nu (outer + 1)
    | .bound db idx => db < outer || (db == outer && (match us[idx]? with | some u => decide (u < nu) | none => false))
    | .infer _ _ => false
  def Const.okIn (us : List Nat) (nu outer : Nat) : Const → Bool
    | .mk ty v => ty.okIn us nu outer && v.okIn us nu outer
  def GArg.okIn (us : List Nat) (nu outer : Nat) : GArg → Bool
    | .ty t => t.okIn us nu outer
    | .lt l => l.okIn us nu outer
    | .ct c => c.okIn us nu outer
  def Args.okIn (us : List Nat) (nu outer : Nat) : Args → Bool
    | .nil => true
    | .cons a as => a.okIn us nu outer && as.okIn us nu outer
  def WC.okIn (us : List Nat) (nu outer : Nat) : WC → Bool
    | .implemented _ args => args.okIn us nu outer
    | .aliasEqProj _ args ty => args.okIn us nu outer && ty.okIn us nu outer
    | .aliasEqOpaque _ args ty => args.okIn us nu outer && ty.okIn us nu outer
    | .ltOutlives a b => a.okIn us nu outer && b.okIn us nu outer
    | .tyOutlives t l => t.okIn us nu outer && l.okIn us nu outer
  def QWC.okIn (us : List Nat) (nu outer : Nat) : QWC → Bool
    | .mk _ wc => wc.okIn us nu (outer + 1)
  def QWCs.okIn (us : List Nat) (nu outer : Nat) : QWCs → Bool
    | .nil => true
    | .cons q qs => q.okIn us nu outer && qs.okIn us nu outer
end

/-- `queryKinds`: the kinds of the query's canonical binders; `nu`: the number of universes of the
    (u-canonical) query; the answer: its own binders (kind, universe) and its substitution -/
def wfAnswer (queryKinds : List VarKind) (nu : Nat) (ans : Canon Args) : Bool :=
  kindsMatch queryKinds ans.value.toList &&
  ans.value.okIn (ans.binders.map (·.2)) nu 0

end Chalk
