/-
  Model of `chalk-solve/src/infer/invert.rs`: `InferenceTable::invert`,
  `invert_then_canonicalize`, `Inverter`.

  `invert` canonicalizes the value and gives up (`None`) exactly when the canonicalizer recorded a
  free variable, i.e. reached an inference variable that the table has not bound; otherwise the
  canonical value (in which every bound variable has been replaced by its value) is folded by the
  `Inverter`: a stateful folder owning the table and two maps from placeholders to the fresh
  variables that replace them (one for types, one for lifetimes; `FxHashMap::entry(..)
  .or_insert_with(|| table.new_variable(universe.ui))`).  It forbids free and inference variables
  (neither can occur after a canonicalization without free variables), and it does NOT override
  `fold_free_placeholder_const`: const placeholders are kept (trait default: fold the type, rebuild).
-/
import ChalkModel.Canon

namespace Chalk

structure InvState where
  table : Table
  invertedTy : List ((Nat × Nat) × Nat) := []
  invertedLt : List ((Nat × Nat) × Nat) := []
  deriving DecidableEq, Repr

/-- look-up in one of the `inverted_*` maps -/
def invLookup (p : Nat × Nat) : List ((Nat × Nat) × Nat) → Option Nat
  | [] => none
  | (q, v) :: rest => if q = p then some v else invLookup p rest

def pInvInfer : Err := .panic "unexpected inference type"

/-- `TypeFolder for Inverter` -/
def inverterFolder : SFolder InvState where
  freeVarTy := forbidFreeVarTy
  freeVarLt := forbidFreeVarLt
  freeVarConst := forbidFreeVarConst
  inferTy := fun _ _ _ _ => .error pInvInfer
  inferLt := fun _ _ _ => .error pInvInfer
  inferConst := fun _ _ _ _ => .error pInvInfer
  -- `.to_ty(interner)` makes a general type variable; `.shifted_in` does nothing to a variable
  phTy := fun ui idx _ st =>
    match invLookup (ui, idx) st.invertedTy with
    | some v => .ok (.infer v .general, st)
    | none =>
      let p := st.table.newVariable ui
      .ok (.infer p.2 .general, { st with table := p.1, invertedTy := st.invertedTy ++ [((ui, idx), p.2)] })
  phLt := fun ui idx _ st =>
    match invLookup (ui, idx) st.invertedLt with
    | some v => .ok (.infer v, st)
    | none =>
      let p := st.table.newVariable ui
      .ok (.infer p.2, { st with table := p.1, invertedLt := st.invertedLt ++ [((ui, idx), p.2)] })
  -- trait default
  phConst := fun ty ui idx _ st => .ok (.mk ty (.placeholder ui idx), st)
  foldsPhConstTy := true

/-- `InferenceTable::invert`; returns the inverted value and the table (which has the new variables) -/
def Table.invert (t : Table) (v : Args) : Res (Option (Args × Table)) :=
  match t.canonicalize v with
  | .error e => .error e
  | .ok c =>
    if c.freeVars ≠ [] then .ok none
    else if c.quantified.binders ≠ [] then .error (.panic "assertion failed: quantified.binders.is_empty")
    else
      match sfoldArgs inverterFolder 0 c.quantified.value { table := t } with
      | .error e => .error e
      | .ok (r, st) => .ok (some (r, st.table))

/-- `invert_then_canonicalize` (the snapshot/rollback restores the table) -/
def Table.invertThenCanonicalize (t : Table) (v : Args) : Res (Option (Canon Args)) :=
  match t.invert v with
  | .error e => .error e
  | .ok none => .ok none
  | .ok (some (r, t')) =>
    match t'.canonicalize r with
    | .error e => .error e
    | .ok c => .ok (some c.quantified)

end Chalk
