import ChalkModel.Syntax
import ChalkModel.Fold
import ChalkModel.Shift
