import ChalkModel.Ops

partial def loop (h : IO.FS.Stream) (out : IO.FS.Stream) : IO Unit := do
  let line ← h.getLine
  if line.isEmpty then return ()
  out.putStrLn (Chalk.handleLine line)
  loop h out

def main : IO Unit := do
  let stdin ← IO.getStdin
  let stdout ← IO.getStdout
  loop stdin stdout
  stdout.flush
